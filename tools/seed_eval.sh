#!/bin/bash
# Confirm a seeded change independently and run our checks against it.
#   tools/seed_eval.sh <ID> <n> <tier> <prop> [<prop>...]
# Reads /tmp/wt/<ID>/seeded/<n>/{patch.diff,demo.rs,meta.json}; writes /verif/seeded/<ID>-<n>/ and a
# result line to /verif/seeded/<ID>-<n>/result.txt
set -u
id="$1"; n="$2"; tier="$3"; shift 3
src="${SEED_BASE:-/tmp/wt}/$id/seeded/$n"
dst="/verif/seeded/${SEED_PREFIX:-}$id-$n"
wt="/tmp/mut/verify-${SEED_PREFIX:-}$id-$n"
export CARGO_TARGET_DIR=/tmp/mut/target-${LOOP:-shared} CARGO_NET_OFFLINE=true
mkdir -p /tmp/mut "$dst"
cp -r "$src"/* "$dst"/ 2>/dev/null
git -C /repo worktree remove --force "$wt" >/dev/null 2>&1
git -C /repo worktree add -q --detach "$wt" HEAD || exit 3
res="$dst/result.txt"; : > "$res"
if ! { git -C "$wt" apply "$src/patch.diff" 2>/dev/null || (cd "$wt" && patch -p1 -F3 -s --no-backup-if-mismatch < "$src/patch.diff"); }; then echo "patch_applies=no" >> "$res"; git -C /repo worktree remove --force "$wt"; exit 3; fi
echo "patch_applies=yes" >> "$res"
# 1. existing tests with the patch
t=$(cd "$wt" && cargo test --workspace --no-fail-fast --offline 2>&1)
passed=$(echo "$t" | grep -E "^test result" | sed -E 's/.* ([0-9]+) passed.*/\1/' | paste -sd+ | bc)
failed=$(echo "$t" | grep -E "^test result" | sed -E 's/.* ([0-9]+) failed.*/\1/' | paste -sd+ | bc)
echo "suite_with_patch: passed=$passed failed=$failed" >> "$res"
if echo "$t" | grep -q "^error"; then echo "suite_with_patch: BUILD ERROR" >> "$res"; fi
# 2. demo with the patch, 3. without
if [ -f "$src/demo.rs" ]; then
  cp "$src/demo.rs" "$wt/tests/demo.rs"
  d1=$(cd "$wt" && cargo test --offline --features serde --test demo 2>&1); c1=$?
  echo "demo_with_patch: exit=$c1 $(echo "$d1" | grep -E "^test result" | head -1)" >> "$res"
  git -C "$wt" checkout -- .
  d2=$(cd "$wt" && cargo test --offline --features serde --test demo 2>&1); c2=$?
  echo "demo_without_patch: exit=$c2 $(echo "$d2" | grep -E "^test result" | head -1)" >> "$res"
  rm -f "$wt/tests/demo.rs"
else
  echo "demo: not a demo.rs (see meta.json)" >> "$res"
fi
git -C /repo worktree remove --force "$wt"
# 4. our checks
out=$(/verif/tools/mutant.sh "${SEED_PREFIX:-}$id-$n" "$src/patch.diff" "$tier" "$@" 2>&1)
echo "$out" | grep -E "^== |^VIOLATION|^  kind:|^INCONCLUSIVE|PATCH" | cut -c1-260 >> "$res"
cat "$res"
