#!/bin/bash
# round 3: evaluate seeds and benign changes under /tmp/wt${RND} as they appear (sequentially).
# A seed that its own property's quick check misses is also run against the neighbouring checks.
RND=${RND:-4}; export SEED_BASE=/tmp/wt${RND} SEED_PREFIX=r${RND}-
end=$((SECONDS+${1:-6}*3600))
ALL="C01 C02 C03 C04 C05 C06 C07 C08 C09 C10 C11 C12 C13 C14 C15 C16 C20"
while [ $SECONDS -lt $end ]; do
  did=0
  for id in ${ORDER:-C01 C02 C03 C04 C05 C06 C07 C08 C09 C10 C11 C12 C13 C14 C15 C16 C17 C18 C19 C20}; do
    for n in 1 2 3; do
      src=/tmp/wt${RND}/$id/seeded/$n
      if [ -f "$src/meta.json" ] && [ -f "$src/patch.diff" ] && [ -f /tmp/wt${RND}/$id/DONE ] && [ ! -f /verif/seeded/r${RND}-$id-$n/result.txt ] && mkdir /tmp/mut/claim${RND}-$id-$n 2>/dev/null; then
        echo "#### r${RND}-$id-$n $(date +%T)"
        /verif/tools/seed_eval.sh $id $n quick $id
        if ! grep -q "^VIOLATION" /verif/seeded/r${RND}-$id-$n/result.txt; then
          case $id in C17|C18|C19) others="" ;; *) others=$(echo $ALL | sed "s/$id//") ;; esac
          [ -z "$others" ] && echo "---- not caught by $id (no neighbouring checks apply)"
          if [ -n "$others" ]; then
            echo "---- not caught by $id, trying neighbours"
            /verif/tools/mutant.sh "r${RND}n-$id-$n" "$src/patch.diff" quick $others 2>&1 | grep -E "^== |^VIOLATION|^  kind:|^INCONCLUSIVE" | cut -c1-260 | tee -a /verif/seeded/r${RND}-$id-$n/result.txt
          fi
        fi
        did=1
      fi
    done
    src=/tmp/wt${RND}/$id/benign/1
    if [ -f "$src/meta.json" ] && [ -f "$src/patch.diff" ] && [ -f /tmp/wt${RND}/$id/DONE ] && [ ! -f /verif/benign/r${RND}-$id-1/result.txt ] && mkdir /tmp/mut/claim${RND}-b-$id 2>/dev/null; then
      echo "#### benign r${RND}-$id-1 $(date +%T)"
      BENIGN_BASE=/tmp/wt${RND} BENIGN_PREFIX=r${RND}- /verif/tools/benign_eval.sh $id 1 quick $id
      did=1
    fi
  done
  [ $did -eq 0 ] && sleep 30
done
