#!/bin/bash
# Grow and pack the committed starting corpus of a property's fuzz job:
#   tools/fuzz_grow.sh <Cxx> <seconds> [jobs]
# runs the fuzz job of the thorough plan for <seconds> (corpus in target/main/fuzz-corpus/<Cxx>),
# minimises the corpus by coverage (libFuzzer -merge=1) and packs it as fuzz_corpus/<Cxx>.tar.gz.
# The corpus is only a set of inputs: every run re-executes and re-judges them.
set -u
prop="$1"; secs="$2"; jobs="${3:-16}"
cd /verif
VERIF_ONLY_JOBS=fuzz VERIF_FUZZ_SECONDS="$secs" VERIF_JOBS="$jobs" ./check "$prop" thorough 2>&1 | grep -E "VIOLATION|kind:|INCONCL|verdict="
bin=/verif/target/main/fuzz/x86_64-unknown-linux-gnu/release/prop
src=/verif/target/main/fuzz-corpus/$prop
min=/verif/target/main/fuzz-corpus-min/$prop
rm -rf "$min"; mkdir -p "$min" /verif/fuzz_corpus
RVMON_FUZZ_PROP="$prop" "$bin" -merge=1 -len_control=0 -max_len=4096 "$min" "$src" 2>&1 | tail -2
echo "$prop: $(ls "$src" | wc -l) inputs -> $(ls "$min" | wc -l) after merge"
tar -C "$min" -czf "/verif/fuzz_corpus/$prop.tar.gz" .
ls -la "/verif/fuzz_corpus/$prop.tar.gz"
