#!/bin/bash
# Run ALL native checks against each round-3 benign change (looking for over-strict monitors).
#   tools/benign_all.sh <id> [<id>...]      results: /verif/benign/r3-<id>-1/all.txt
for id in "$@"; do
  src=/verif/benign/r3-$id-1/patch.diff
  [ -f "$src" ] || continue
  out=/verif/benign/r3-$id-1/all.txt
  [ -f "$out" ] && continue
  others=$(echo "C01 C02 C03 C04 C05 C06 C07 C08 C09 C10 C11 C12 C13 C14 C15 C16 C20" | sed "s/$id//")
  case $id in C17) others="C17";; C18) others="C18 C01";; C19) others="C19 C16 C01";; esac
  /verif/tools/mutant.sh "ba-$id" "$src" quick $others 2>&1 | grep -E "^== |^VIOLATION|^  kind:|^  detail:|^INCONCLUSIVE|PATCH" | cut -c1-400 > "$out.tmp"
  mv "$out.tmp" "$out"
  echo "#### $id"; grep -E "exit=[12]" "$out"
done
