#!/bin/bash
# Final pass over the kept seeded changes at the current /repo HEAD:
#   tools/seed_final.sh <seed dir name> <tier> <prop> [<prop>...]
# uses /verif/seeded/<name>/{patch.diff,demo.rs}; writes /verif/seeded/<name>/result.txt
set -u
name="$1"; tier="$2"; shift 2
dir="/verif/seeded/$name"
wt="/tmp/mut/final-$name"
export CARGO_TARGET_DIR=/tmp/mut/target-${LOOP:-shared} CARGO_NET_OFFLINE=true
mkdir -p /tmp/mut
git -C /repo worktree remove --force "$wt" >/dev/null 2>&1
git -C /repo worktree add -q --detach "$wt" HEAD || exit 3
res="$dir/result.txt"; : > "$res"
echo "repo_head=$(git -C /repo rev-parse --short HEAD)" >> "$res"
if ! { git -C "$wt" apply "$dir/patch.diff" 2>/dev/null || (cd "$wt" && patch -p1 -F3 -s --no-backup-if-mismatch < "$dir/patch.diff"); }; then echo "patch_applies=no" >> "$res"; git -C /repo worktree remove --force "$wt"; cat "$res"; exit 3; fi
echo "patch_applies=yes" >> "$res"
t=$(cd "$wt" && cargo test --workspace --no-fail-fast --offline 2>&1)
passed=$(echo "$t" | grep -E "^test result" | sed -E 's/.* ([0-9]+) passed.*/\1/' | paste -sd+ | bc)
failed=$(echo "$t" | grep -E "^test result" | sed -E 's/.* ([0-9]+) failed.*/\1/' | paste -sd+ | bc)
echo "suite_with_patch: passed=$passed failed=$failed" >> "$res"
if [ -f "$dir/demo.rs" ]; then
  cp "$dir/demo.rs" "$wt/tests/demo.rs"
  d1=$(cd "$wt" && cargo test --offline --features serde --test demo 2>&1); c1=$?
  echo "demo_with_patch: exit=$c1 $(echo "$d1" | grep -E "^test result" | head -1)" >> "$res"
  git -C "$wt" checkout -- .
  d2=$(cd "$wt" && cargo test --offline --features serde --test demo 2>&1); c2=$?
  echo "demo_without_patch: exit=$c2 $(echo "$d2" | grep -E "^test result" | head -1)" >> "$res"
  rm -f "$wt/tests/demo.rs"
elif [ -f "$dir/demo.cpp" ]; then
  # C++ demonstration: build the static library + generated headers in the scratch worktree, compile
  # the demo with ASan/UBSan/LSan and run it, with and without the patch
  cppdemo() {
    (cd "$wt" && RESOLVO_GENERATED_INCLUDE_DIR="$wt/target-inc" cargo build --offline -p resolvo_cpp --release >/dev/null 2>&1) || { echo "build-failed"; return; }
    clang++ -std=c++17 -g -fsanitize=address,undefined -fno-sanitize-recover=all -I"$wt/cpp/include" -I"$wt/target-inc" "$dir/demo.cpp" "$CARGO_TARGET_DIR/release/libresolvo_cpp.a" -lpthread -ldl -lm -o "$wt/demo-bin" 2>/dev/null || { echo "compile-failed"; return; }
    ASAN_OPTIONS=detect_leaks=1 "$wt/demo-bin" >/dev/null 2>&1; echo "exit=$?"
  }
  echo "demo_with_patch: $(cppdemo) (C++ program under ASan+UBSan+LSan)" >> "$res"
  git -C "$wt" checkout -- .
  echo "demo_without_patch: $(cppdemo) (C++ program under ASan+UBSan+LSan)" >> "$res"
  rm -f "$wt/demo-bin"
else
  echo "demo: none found" >> "$res"
fi
git -C /repo worktree remove --force "$wt"
out=$(/verif/tools/mutant.sh "f-$name" "$dir/patch.diff" "$tier" "$@" 2>&1)
echo "$out" | grep -E "^== |^VIOLATION|^  kind:|^INCONCLUSIVE|PATCH" | sed -E 's#replay=/verif/(replay|target)/[^ ]*##' | cut -c1-240 >> "$res"
cat "$res"
