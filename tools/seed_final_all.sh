#!/bin/bash
# final pass over all kept seeds: own property's check plus the cross checks that are known to fire
declare -A X
X[C01-1]="C01"; X[C01-2]="C01 C13"; X[C02-1]="C02"; X[C02-2]="C02"; X[C03-1]="C03"; X[C03-2]="C03"
X[C04-1]="C04"; X[C04-2]="C04"; X[C05-1]="C05"; X[C05-2]="C05 C01 C04"; X[C06-1]="C06"; X[C06-2]="C06"
X[C07-1]="C07"; X[C07-2]="C07"; X[C08-1]="C08"; X[C08-2]="C08"; X[C09-1]="C09"; X[C09-2]="C09"
X[C10-3]="C10"; X[C10-2]="C10 C13"; X[C11-1]="C11"; X[C11-2]="C11"; X[C12-1]="C12"; X[C12-2]="C12"
X[C13-1]="C13"; X[C13-2]="C13 C14"; X[C14-2]="C14 C04"; X[C14-3]="C14"; X[C15-1]="C15 C14 C01"; X[C15-2]="C15 C01 C02"
X[C16-1]="C16"; X[C16-2]="C16"; X[C17-1]="C17"; X[C17-2]="C17"; X[C18-1]="C18"; X[C18-2]="C18"
X[C19-1]="C19"; X[C19-2]="C19"; X[C20-1]="C20"; X[C20-2]="C20"
for name in "$@"; do
  [ -d /verif/seeded/$name ] || { echo "no such seed $name"; continue; }
  echo "#### $name $(date +%T)"
  /verif/tools/seed_final.sh $name quick ${X[$name]:-${name:0:3}}
done
