#!/bin/bash
# Run checks against a scratch copy of the repository with a patch applied (mutation trial).
#   tools/mutant.sh <name> <patch.diff> <tier> <prop> [<prop> ...]
# Creates a git worktree of /repo under /tmp/mut/<name>, applies the patch, runs the checks with
# VERIF_REPO pointing at it, then removes the worktree and its build output.
set -u
name="$1"; patch="$2"; tier="$3"; shift 3
wt="/tmp/mut/$name"
mkdir -p /tmp/mut
git -C /repo worktree remove --force "$wt" >/dev/null 2>&1
git -C /repo worktree add -q --detach "$wt" HEAD || exit 3
if ! { git -C "$wt" apply "$patch" 2>/dev/null || (cd "$wt" && patch -p1 -F3 -s --no-backup-if-mismatch < "$patch"); }; then echo "PATCH DOES NOT APPLY"; git -C /repo worktree remove --force "$wt"; exit 3; fi
cd /verif
for prop in "$@"; do
  out=$(VERIF_REPO="$wt" ./check "$prop" "$tier" 2>&1)
  code=$?
  echo "== $name $prop $tier exit=$code"
  echo "$out" | grep -E "^VIOLATION|^  kind:|^INCONCLUSIVE|^KNOWN|verdict=" | head -12
done
tag="alt-$(python3 -c "import hashlib,sys;print(hashlib.sha1(sys.argv[1].encode()).hexdigest()[:10])" "$wt")"
rm -rf "/verif/target/$tag"
git -C /repo worktree remove --force "$wt"
