#!/bin/bash
# Run checks against a property-preserving change: every check must stay silent (exit 0).
#   tools/benign_eval.sh <Bk> <n> <tier> <prop> [<prop>...]
set -u
id="$1"; n="$2"; tier="$3"; shift 3
src="${BENIGN_BASE:-/tmp/wt2}/$id/benign/$n"
dst="/verif/benign/${BENIGN_PREFIX:-}$id-$n"
wt="/tmp/mut/benign-${BENIGN_PREFIX:-}$id-$n"
export CARGO_TARGET_DIR=/tmp/mut/target-${LOOP:-shared} CARGO_NET_OFFLINE=true
mkdir -p /tmp/mut "$dst"
cp "$src"/* "$dst"/ 2>/dev/null
git -C /repo worktree remove --force "$wt" >/dev/null 2>&1
git -C /repo worktree add -q --detach "$wt" HEAD || exit 3
res="$dst/result.txt"; : > "$res"
echo "repo_head=$(git -C /repo rev-parse --short HEAD)" >> "$res"
if ! { git -C "$wt" apply "$src/patch.diff" 2>/dev/null || (cd "$wt" && patch -p1 -F3 -s --no-backup-if-mismatch < "$src/patch.diff"); }; then echo "patch_applies=no" >> "$res"; git -C /repo worktree remove --force "$wt"; cat "$res"; exit 3; fi
echo "patch_applies=yes" >> "$res"
t=$(cd "$wt" && cargo test --workspace --no-fail-fast --offline 2>&1)
passed=$(echo "$t" | grep -E "^test result" | sed -E 's/.* ([0-9]+) passed.*/\1/' | paste -sd+ | bc)
failed=$(echo "$t" | grep -E "^test result" | sed -E 's/.* ([0-9]+) failed.*/\1/' | paste -sd+ | bc)
echo "suite_with_patch: passed=$passed failed=$failed" >> "$res"
git -C /repo worktree remove --force "$wt"
out=$(/verif/tools/mutant.sh "b-${BENIGN_PREFIX:-}$id-$n" "$src/patch.diff" "$tier" "$@" 2>&1)
echo "$out" | grep -E "^== |^VIOLATION|^  kind:|^  detail:|^INCONCLUSIVE|PATCH" | cut -c1-300 >> "$res"
cat "$res"
