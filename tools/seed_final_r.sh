#!/bin/bash
# final pass over the seeds of one round: tools/seed_final_r.sh <prefix> <loop id> <ids...>
pre="$1"; export LOOP="$2"; shift 2
for id in "$@"; do
  for n in 1 2 3 4; do
    d=/verif/seeded/$pre$id-$n
    [ -d "$d" ] || continue
    [ -f "$d/final.done" ] && continue
    own=$id
    # neighbours that caught it in the first pass are re-run too
    extra=$(grep -E "^== r[0-9]n-$id-$n C[0-9]+ quick exit=1" "$d/result.txt" 2>/dev/null | sed -E 's/.* (C[0-9]+) quick.*/\1/' | tr '\n' ' ')
    echo "#### $pre$id-$n ($own $extra) $(date +%T)"
    /verif/tools/seed_final.sh "$pre$id-$n" quick $own $extra > /dev/null 2>&1
    touch "$d/final.done"
    grep -E "^== |suite_with|demo_with" "$d/result.txt" | cut -c1-120
  done
done
