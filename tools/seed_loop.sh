#!/bin/bash
# evaluate seeds as they appear (sequentially)
end=$((SECONDS+4*3600))
while [ $SECONDS -lt $end ]; do
  did=0
  for id in C01 C02 C03 C04 C05 C06 C07 C08 C09 C10 C11 C12 C13 C14 C15 C16 C17 C18 C19 C20; do
    for n in 1 2; do
      src=/tmp/wt/$id/seeded/$n
      if [ -f "$src/meta.json" ] && [ -f "$src/patch.diff" ] && [ ! -f /verif/seeded/$id-$n/result.txt ]; then
        # wait until the agent is really done with this seed (meta.json older than 60 s)
        age=$(( $(date +%s) - $(stat -c %Y "$src/meta.json") ))
        if [ $age -lt 60 ]; then continue; fi
        echo "#### $id-$n $(date +%T)"
        /verif/tools/seed_eval.sh $id $n quick $id
        did=1
      fi
    done
  done
  [ $did -eq 0 ] && sleep 30
done
