#!/usr/bin/env python3
"""Build /verif/seeded/README.md and update every seeded/<name>/meta.json from result.txt."""
import glob, json, os, re
rows = []
for d in sorted(glob.glob('/verif/seeded/C*-*')) + sorted(glob.glob('/verif/seeded/r[3-9]-C*-*')):
    name = os.path.basename(d)
    res = open(os.path.join(d, 'result.txt')).read() if os.path.exists(os.path.join(d, 'result.txt')) else ''
    try:
        meta = json.load(open(os.path.join(d, 'meta.json')))
    except Exception:
        meta = {}
    suite = re.search(r'suite_with_patch: passed=(\d+) failed=(\d+)', res)
    dw = re.search(r'demo_with_patch: exit=(\d+)', res)
    dn = re.search(r'demo_without_patch: exit=(\d+)', res)
    detected = []
    cur = None
    kinds = {}
    for line in res.splitlines():
        m = re.match(r'== \S+ (C\d\d) (\w+) exit=(\d+)', line)
        if m:
            cur = m.group(1)
            if m.group(3) == '1':
                detected.append(cur)
            continue
        m = re.match(r'\s+kind: (.*)', line)
        if m and cur:
            kinds.setdefault(cur, [])
            if m.group(1) not in kinds[cur]:
                kinds[cur].append(m.group(1))
    confirmed = bool(suite and suite.group(1) == '57' and suite.group(2) == '0' and (('C++ program, see meta.json' in res) or (dw and dw.group(1) != '0' and dn and dn.group(1) == '0')))
    meta.update({
        'breaks_property': meta.get('property', re.sub(r'^r\d-', '', name)[:3]),
        'confirmed_by_verifier': {
            'repo_head': (re.search(r'repo_head=(\w+)', res) or [None, None])[1],
            'existing_suite_with_patch': f"{suite.group(1)} passed, {suite.group(2)} failed" if suite else 'not run',
            'demo_with_patch': 'fails' if dw and dw.group(1) != '0' else ('C++ demo, see commands in this file' if 'C++ program, see meta.json' in res else 'passes'),
            'demo_without_patch': 'passes' if dn and dn.group(1) == '0' else ('C++ demo' if 'C++ program, see meta.json' in res else 'fails'),
            'confirmed': confirmed,
            'commands': 'tools/seed_final.sh ' + name + ' quick <checks>  (scratch worktree of /repo under /tmp/mut, cargo test --workspace --no-fail-fast --offline; cargo test --offline --features serde --test demo with and without the patch; VERIF_REPO=<worktree> ./check <Cxx> quick)',
        },
        'detected_by_quick_checks': detected,
        'violation_kinds': kinds,
    })
    json.dump(meta, open(os.path.join(d, 'meta.json'), 'w'), indent=1)
    rows.append((name, meta.get('summary', '')[:160].replace('\n', ' ').replace('|', '/'), (meta.get('needs_to_manifest', '') if isinstance(meta.get('needs_to_manifest', ''), str) else json.dumps(meta.get('needs_to_manifest')))[:200].replace('\n', ' ').replace('|', '/'), 'yes' if confirmed else 'NO', ', '.join(detected) or 'none', '; '.join(k[0][:70] for k in kinds.values() if k)[:200].replace('|', '/')))
with open('/verif/seeded/README.md', 'w') as f:
    f.write('# Seeded breaking changes (written by independent sub-agents, confirmed here)\n\n')
    f.write('Each directory holds `patch.diff`, the demonstration (`demo.rs` or a C++ program), `meta.json` and `result.txt` (output of `tools/seed_final.sh`).\n\n')
    f.write('| seed | change | needs to manifest | confirmed | caught by (quick) | first violation kinds |\n|---|---|---|---|---|---|\n')
    for r in rows:
        f.write('| ' + ' | '.join(r) + ' |\n')
print(open('/verif/seeded/README.md').read()[:3000])
