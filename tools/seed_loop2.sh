#!/bin/bash
# round 2: evaluate seeds under /tmp/wt2 as they appear (sequentially)
export SEED_BASE=/tmp/wt2 SEED_PREFIX=r2-
end=$((SECONDS+5*3600))
while [ $SECONDS -lt $end ]; do
  did=0
  for id in C01 C02 C03 C04 C05 C06 C07 C08 C09 C10 C11 C12 C13 C14 C15 C16 C17 C18 C19 C20; do
    for n in 1 2; do
      src=/tmp/wt2/$id/seeded/$n
      if [ -f "$src/meta.json" ] && [ -f "$src/patch.diff" ] && [ ! -f /verif/seeded/r2-$id-$n/result.txt ]; then
        age=$(( $(date +%s) - $(stat -c %Y "$src/meta.json") ))
        if [ $age -lt 90 ]; then continue; fi
        echo "#### r2-$id-$n $(date +%T)"
        /verif/tools/seed_eval.sh $id $n quick $id
        did=1
      fi
    done
  done
  [ $did -eq 0 ] && sleep 30
done
