//! debugging aid: run one C12 case by seed
use rvmon::{campaign::Monitor, gener::Rng, monitors::c12::C12, report::{Ctx, Report, Tier}};
fn main() {
    rvmon::run::install_panic_hook();
    let cs: u64 = std::env::args().nth(1).unwrap().parse().unwrap();
    let mut rng = Rng::new(cs);
    let case = C12.generate(&mut rng, Tier::Quick, 0);
    let mut rep = Report::default();
    let mut ctx = Ctx { rep: &mut rep, case_seed: cs, tier: Tier::Quick, pending: vec![], verbose: true };
    C12.check(&case, &mut ctx);
    println!("done {:?}", ctx.pending.len());
}
