//! debugging aid: replay a SolverCase-like json (fields u, p) and print log + outcome
use std::rc::Rc;
use rvmon::{run::*, universe::*};
fn main() {
    rvmon::run::install_panic_hook();
    let path = std::env::args().nth(1).unwrap();
    if path == "corpus" {
        for e in rvmon::corpus::all() {
            let u = Rc::new(e.u.clone());
            for opts in [SolveOpts::default()] {
                let (sess, out) = solve_once(&u, &e.p, &opts);
                let _ = &sess;
                match &out {
                    Outcome::Ok(s) => println!("{}: OK {:?}", e.name, s.iter().map(|&x| u.solv_label(x)).collect::<Vec<_>>()),
                    Outcome::Panic(p) => println!("{}: PANIC {}", e.name, p.signature()),
                    o => println!("{}: {}", e.name, o.tag()),
                }
            }
        }
        return;
    }
    let v: serde_json::Value = serde_json::from_str(&std::fs::read_to_string(path).unwrap()).unwrap();
    let c = v.get("case").unwrap();
    let u: Universe = serde_json::from_value(c["u"].clone()).unwrap();
    let p: Prob = serde_json::from_value(c["p"].clone()).unwrap();
    let u = Rc::new(u);
    let (sess, out) = solve_once(&u, &p, &SolveOpts::default());
    for e in sess.log() { println!("{:?}", e); }
    match &out { Outcome::Ok(s) => println!("OK {:?}", s.iter().map(|&x| u.solv_label(x)).collect::<Vec<_>>()), o => println!("{}", o.tag()) }
    let d = sess.solver.verif_dump();
    for (i,c) in d.clauses.iter().enumerate() { println!("#{i} {:?} {:?} why={:?} watched={:?}", c.kind, c.literals, c.why, c.watched); }
    for a in &d.trail { println!("trail {:?}={} L{} reason #{}", a.var, a.value, a.level, a.reason); }
    println!("{:?}", d.counters);
}
