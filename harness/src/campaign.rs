//! Generic driver: generates cases from seeds, runs a monitor on each, on all cores, with a
//! wall-clock watchdog whose firing is *inconclusive* (never a violation).
use std::{
    sync::{
        Arc, Mutex,
        atomic::{AtomicBool, AtomicU64, Ordering},
    },
    time::{Duration, Instant},
};

use serde::{Serialize, de::DeserializeOwned};
use serde_json::Value;

use crate::{
    gener::Rng,
    report::{Ctx, MAX_VIOLATIONS_PER_KIND, Report, Tier, Violation},
};

pub trait Monitor: Sync {
    type Case: Serialize + DeserializeOwned;
    fn id(&self) -> &'static str;
    /// how cases are generated and what makes one non-trivial / distinct
    fn rule(&self) -> String;
    /// number of cases for the tier
    fn cases(&self, tier: Tier) -> u64;
    /// minimum number of distinct non-trivial cases below which the run is inconclusive
    fn floor(&self, tier: Tier) -> u64;
    fn generate(&self, rng: &mut Rng, tier: Tier, index: u64) -> Self::Case;
    fn check(&self, case: &Self::Case, ctx: &mut Ctx);
    /// optional deterministic extra work that is not seed driven (exhaustive sub-spaces)
    fn fixed(&self, _tier: Tier, _shard: u64, _nshards: u64, _ctx: &mut Ctx) {}
}

pub fn case_seed(seed: u64, index: u64) -> u64 {
    let mut r = Rng::new(seed ^ index.wrapping_mul(0xD6E8FEB86659FD93));
    r.next()
}

pub struct RunCfg {
    pub tier: Tier,
    pub seed: u64,
    pub threads: usize,
    /// multiplies the number of cases (Miri / ASan shards use small values)
    pub scale: f64,
    pub watchdog_s: u64,
    /// shard i of n over the case index space
    pub shard: (u64, u64),
    /// directory for the per-worker in-flight files (which case a worker is on, last panic seen)
    pub inflight_dir: Option<std::path::PathBuf>,
}

pub struct RunResult {
    pub report: Report,
    pub wall_s: f64,
    pub watchdog_fired: Option<u64>,
}

fn run_case<M: Monitor>(m: &M, cs: u64, index: u64, tier: Tier, rep: &mut Report) {
    let mut rng = Rng::new(cs);
    let case = m.generate(&mut rng, tier, index);
    let mut ctx = Ctx { rep, case_seed: cs, tier, pending: vec![], verbose: false };
    // the monitors catch panics of the API calls they make; a panic that escapes them comes from
    // inspecting the solver state afterwards (hook dump, accessors) or from the harness itself
    match crate::run::catch(|| m.check(&case, &mut ctx)) {
        crate::run::Caught::Ok(()) => {}
        crate::run::Caught::Panic(pi) => {
            if pi.in_harness() {
                ctx.rep.inconclusive(&format!("harness panic: {}", pi.signature()));
            } else {
                ctx.violation(format!("solver state could not be inspected after the call: panic in {}", pi.signature()), String::new());
            }
        }
        _ => ctx.rep.inconclusive("monitor aborted (deadlock / budget outside a solve call)"),
    }
    let pending = std::mem::take(&mut ctx.pending);
    rep.cases += 1;
    record(rep, pending, cs, || serde_json::to_value(&case).unwrap_or(Value::Null));
}

fn record(rep: &mut Report, pending: Vec<(String, String)>, cs: u64, case: impl Fn() -> Value) {
    for (kind, detail) in pending {
        let n = rep.violation_counts.entry(kind.clone()).or_insert(0);
        *n += 1;
        if *n <= MAX_VIOLATIONS_PER_KIND {
            rep.violations.push(Violation { kind, detail, case_seed: cs, case: case() });
        }
    }
}

pub fn run<M: Monitor>(m: &M, cfg: &RunCfg) -> RunResult {
    let t0 = Instant::now();
    let total = ((m.cases(cfg.tier) as f64) * cfg.scale).ceil() as u64;
    let next = AtomicU64::new(0);
    let done = AtomicBool::new(false);
    let fired: Arc<Mutex<Option<u64>>> = Arc::new(Mutex::new(None));
    // per worker: (current case seed, start millis since t0); 0 = idle
    let slots: Vec<(AtomicU64, AtomicU64)> =
        (0..cfg.threads).map(|_| (AtomicU64::new(0), AtomicU64::new(0))).collect();
    let merged = Mutex::new(Report::default());
    let (shard_i, shard_n) = cfg.shard;

    std::thread::scope(|sc| {
        // watchdog
        if cfg.watchdog_s > 0 {
            sc.spawn(|| {
                while !done.load(Ordering::SeqCst) {
                    std::thread::sleep(Duration::from_millis(200));
                    let now = t0.elapsed().as_millis() as u64;
                    for (cs, st) in &slots {
                        let c = cs.load(Ordering::SeqCst);
                        let s = st.load(Ordering::SeqCst);
                        if c != 0 && now.saturating_sub(s) > cfg.watchdog_s * 1000 {
                            *fired.lock().unwrap() = Some(c);
                            println!(
                                "INCONCLUSIVE property={} watchdog fired after {}s on case_seed={}",
                                m.id(),
                                cfg.watchdog_s,
                                c
                            );
                            // a runaway case cannot be unwound from outside: leave
                            std::process::exit(2);
                        }
                    }
                }
            });
        }
        let mut handles = vec![];
        for w in 0..cfg.threads {
            let (next, slots, merged, done) = (&next, &slots, &merged, &done);
            handles.push(sc.spawn(move || {
                crate::run::install_panic_hook();
                if let Some(d) = &cfg.inflight_dir {
                    crate::run::inflight_open(d, w);
                }
                let mut rep = Report::default();
                // fixed (exhaustive) work is split across workers and shards
                {
                    let wn = cfg.threads as u64 * shard_n;
                    let wi = shard_i * cfg.threads as u64 + w as u64;
                    let mut ctx = Ctx { rep: &mut rep, case_seed: 0, tier: cfg.tier, pending: vec![], verbose: false };
                    slots[w].1.store(t0.elapsed().as_millis() as u64, Ordering::SeqCst);
                    slots[w].0.store(u64::MAX, Ordering::SeqCst);
                    m.fixed(cfg.tier, wi, wn, &mut ctx);
                    slots[w].0.store(0, Ordering::SeqCst);
                    let pending = std::mem::take(&mut ctx.pending);
                    record(&mut rep, pending, 0, || Value::Null);
                }
                loop {
                    let i = next.fetch_add(1, Ordering::SeqCst);
                    if i >= total {
                        break;
                    }
                    if i % shard_n != shard_i {
                        continue;
                    }
                    let cs = case_seed(cfg.seed, i) | 1;
                    slots[w].1.store(t0.elapsed().as_millis() as u64, Ordering::SeqCst);
                    slots[w].0.store(cs, Ordering::SeqCst);
                    crate::run::inflight_case(cs, i);
                    run_case(m, cs, i, cfg.tier, &mut rep);
                    crate::run::inflight_case(0, 0);
                    slots[w].0.store(0, Ordering::SeqCst);
                }
                merged.lock().unwrap().merge(rep);
                let _ = done;
            }));
        }
        for h in handles {
            if h.join().is_err() {
                merged.lock().unwrap().inconclusive("a worker thread died");
            }
        }
        done.store(true, Ordering::SeqCst);
    });

    let report = merged.into_inner().unwrap();
    let watchdog_fired = *fired.lock().unwrap();
    RunResult { report, wall_s: t0.elapsed().as_secs_f64(), watchdog_fired }
}

/// Re-run one case from its seed (verbose).
pub fn run_seed<M: Monitor>(m: &M, tier: Tier, cs: u64, index: u64) -> Report {
    crate::run::install_panic_hook();
    let mut rep = Report::default();
    let mut rng = Rng::new(cs);
    let case = m.generate(&mut rng, tier, index);
    println!("{}", serde_json::to_string(&case).unwrap_or_default());
    let mut ctx = Ctx { rep: &mut rep, case_seed: cs, tier, pending: vec![], verbose: true };
    m.check(&case, &mut ctx);
    let pending = std::mem::take(&mut ctx.pending);
    record(&mut rep, pending, cs, || serde_json::to_value(&case).unwrap_or(Value::Null));
    rep
}

/// Re-run a serialised case (verbose).
pub fn replay<M: Monitor>(m: &M, tier: Tier, case: Value) -> Result<Report, String> {
    crate::run::install_panic_hook();
    let case: M::Case = serde_json::from_value(case).map_err(|e| e.to_string())?;
    let mut rep = Report::default();
    let mut ctx = Ctx { rep: &mut rep, case_seed: 0, tier, pending: vec![], verbose: true };
    m.check(&case, &mut ctx);
    let pending = std::mem::take(&mut ctx.pending);
    record(&mut rep, pending, 0, || serde_json::to_value(&case).unwrap_or(Value::Null));
    Ok(rep)
}
