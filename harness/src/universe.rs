//! Data-driven package universe, an instrumented `DependencyProvider` over it and the shared
//! event log. The universe is plain data so that a failing case can be written to a replay file
//! and so that the reference semantics (`reference.rs`) can be evaluated on exactly what the
//! provider answers.
use std::{
    any::Any,
    cell::{Cell, RefCell},
    fmt::Display,
    rc::Rc,
};

use resolvo::{
    Candidates, Dependencies, DependencyProvider, HintDependenciesAvailable, Interner,
    KnownDependencies, NameId, Requirement, SolvableId, SolverCache, StringId, VersionSetId,
    VersionSetUnionId,
};
use serde::{Deserialize, Serialize};

use crate::sched::{Pause, Sched};

#[derive(Clone, Debug, Serialize, Deserialize, PartialEq, Eq, Hash)]
pub enum Hint {
    None,
    All,
    Some(Vec<u32>),
}

#[derive(Clone, Debug, Serialize, Deserialize, PartialEq, Eq, Hash)]
pub struct Pkg {
    pub name: String,
    /// None => get_candidates returns None
    pub candidates: Option<Vec<u32>>,
    pub favored: Option<u32>,
    pub locked: Option<u32>,
    pub excluded: Vec<(u32, u32)>,
    pub hint: Hint,
}

#[derive(Clone, Debug, PartialEq, Eq, Hash, Copy, PartialOrd, Ord, Serialize, Deserialize)]
pub enum Req {
    Single(u32),
    Union(u32),
}

#[derive(Clone, Debug, Serialize, Deserialize, PartialEq, Eq, Hash)]
pub enum Deps {
    Known { reqs: Vec<Req>, cons: Vec<u32> },
    Unknown(u32),
}

#[derive(Clone, Debug, Serialize, Deserialize, PartialEq, Eq, Hash)]
pub struct Solv {
    pub name: u32,
    pub ver: u32,
    /// lower = preferred by sort_candidates
    pub rank: u32,
    pub deps: Deps,
}

#[derive(Clone, Debug, Serialize, Deserialize, PartialEq, Eq, Hash)]
pub struct VSet {
    pub name: u32,
    /// extensional: the solvables that match
    pub matching: Vec<u32>,
    pub label: String,
}

#[derive(Clone, Debug, Default, Serialize, Deserialize, PartialEq, Eq, Hash)]
pub struct Universe {
    pub pkgs: Vec<Pkg>,
    pub solvs: Vec<Solv>,
    pub vsets: Vec<VSet>,
    pub unions: Vec<Vec<u32>>,
    pub strings: Vec<String>,
    /// In which order `filter_candidates` lists its answer (the trait promises the set, not the
    /// order): 0 = order of the input, 1 = reversed input, 2 = ascending ids, 3 = descending ids.
    #[serde(default)]
    pub filter_order: u8,
    /// What kind of iterator `version_sets_in_union` hands out: 0 = exact size hint, 1 = no size
    /// information at all (`(0, None)`, like `from_fn` / `flat_map` based providers).
    #[serde(default)]
    pub union_iter: u8,
}

/// A problem over a universe.
#[derive(Clone, Debug, Default, Serialize, Deserialize, PartialEq, Eq, Hash)]
pub struct Prob {
    pub reqs: Vec<Req>,
    pub cons: Vec<u32>,
    pub soft: Vec<u32>,
}

impl Prob {
    pub fn hard(&self) -> Prob {
        Prob { reqs: self.reqs.clone(), cons: self.cons.clone(), soft: vec![] }
    }
}

impl Universe {
    pub fn pkg(&mut self, name: &str) -> u32 {
        if let Some(i) = self.pkgs.iter().position(|p| p.name == name) {
            return i as u32;
        }
        self.pkgs.push(Pkg {
            name: name.into(),
            candidates: Some(vec![]),
            favored: None,
            locked: None,
            excluded: vec![],
            hint: Hint::None,
        });
        (self.pkgs.len() - 1) as u32
    }
    pub fn solv(&mut self, name: &str, ver: u32) -> u32 {
        let n = self.pkg(name);
        if let Some(i) = self.solvs.iter().position(|s| s.name == n && s.ver == ver) {
            return i as u32;
        }
        let id = self.solvs.len() as u32;
        self.solvs.push(Solv {
            name: n,
            ver,
            rank: u32::MAX - ver,
            deps: Deps::Known { reqs: vec![], cons: vec![] },
        });
        if let Some(c) = self.pkgs[n as usize].candidates.as_mut() {
            c.push(id)
        }
        id
    }
    /// version set "name lo..hi" (half open); the extension is computed by `finalize`.
    pub fn vs(&mut self, name: &str, lo: u32, hi: u32) -> u32 {
        let n = self.pkg(name);
        let label = format!("{lo}..{hi}");
        if let Some(i) = self.vsets.iter().position(|v| v.name == n && v.label == label) {
            return i as u32;
        }
        self.vsets.push(VSet { name: n, matching: vec![], label });
        (self.vsets.len() - 1) as u32
    }
    /// A version set with an explicit extension (arbitrary filter semantics).
    pub fn vs_ext(&mut self, name: &str, label: &str, matching: Vec<u32>) -> u32 {
        let n = self.pkg(name);
        self.vsets.push(VSet { name: n, matching, label: label.into() });
        (self.vsets.len() - 1) as u32
    }
    /// Recompute the extension of all range-labelled version sets.
    pub fn finalize(&mut self) {
        for v in &mut self.vsets {
            let Some((lo, hi)) = v.label.split_once("..") else { continue };
            let (Ok(lo), Ok(hi)) = (lo.parse::<u32>(), hi.parse::<u32>()) else { continue };
            v.matching = self
                .solvs
                .iter()
                .enumerate()
                .filter(|(_, s)| s.name == v.name && s.ver >= lo && s.ver < hi)
                .map(|(i, _)| i as u32)
                .collect();
        }
    }
    pub fn string(&mut self, s: &str) -> u32 {
        if let Some(i) = self.strings.iter().position(|x| x == s) {
            return i as u32;
        }
        self.strings.push(s.into());
        (self.strings.len() - 1) as u32
    }
    pub fn add_req(&mut self, s: u32, r: Req) {
        if let Deps::Known { reqs, .. } = &mut self.solvs[s as usize].deps {
            reqs.push(r)
        }
    }
    pub fn add_con(&mut self, s: u32, v: u32) {
        if let Deps::Known { cons, .. } = &mut self.solvs[s as usize].deps {
            cons.push(v)
        }
    }
    pub fn union(&mut self, vs: Vec<u32>) -> u32 {
        self.unions.push(vs);
        (self.unions.len() - 1) as u32
    }
    pub fn solv_label(&self, s: u32) -> String {
        let sv = &self.solvs[s as usize];
        format!("{}={}", self.pkgs[sv.name as usize].name, sv.ver)
    }
    pub fn content_hash(&self, p: &Prob) -> u64 {
        use std::hash::{Hash, Hasher};
        let mut h = std::collections::hash_map::DefaultHasher::new();
        self.hash(&mut h);
        p.hash(&mut h);
        h.finish()
    }

    /// Renumber every id space with the given permutations (`perm[old] = new`); new spaces may
    /// be larger than the old ones, in which case the unused slots are filled with inert
    /// entries that nothing references (this is how sparse id spaces are produced).
    pub fn renumber(
        &self,
        p: &Prob,
        pk: &[u32],
        sv: &[u32],
        vs: &[u32],
        un: &[u32],
        st: &[u32],
    ) -> (Universe, Prob) {
        fn size(perm: &[u32]) -> usize {
            perm.iter().map(|&x| x as usize + 1).max().unwrap_or(0)
        }
        let mreq = |r: &Req| match r {
            Req::Single(v) => Req::Single(vs[*v as usize]),
            Req::Union(u) => Req::Union(un[*u as usize]),
        };
        let mut out = Universe::default();
        out.filter_order = self.filter_order;
        out.union_iter = self.union_iter;
        // inert fillers
        out.pkgs = (0..size(pk))
            .map(|i| Pkg {
                name: format!("hole{i}"),
                candidates: Some(vec![]),
                favored: None,
                locked: None,
                excluded: vec![],
                hint: Hint::None,
            })
            .collect();
        let hole_pkg = out.pkgs.len() as u32;
        out.solvs = (0..size(sv))
            .map(|i| Solv {
                name: hole_pkg,
                ver: i as u32,
                rank: 0,
                deps: Deps::Known { reqs: vec![], cons: vec![] },
            })
            .collect();
        out.vsets = (0..size(vs))
            .map(|i| VSet { name: hole_pkg, matching: vec![], label: format!("hole{i}") })
            .collect();
        out.unions = vec![vec![]; size(un)];
        out.strings = (0..size(st)).map(|i| format!("hole{i}")).collect();
        let mut need_hole_pkg = false;
        for (i, p) in self.pkgs.iter().enumerate() {
            out.pkgs[pk[i] as usize] = Pkg {
                name: p.name.clone(),
                candidates: p.candidates.as_ref().map(|c| c.iter().map(|&s| sv[s as usize]).collect()),
                favored: p.favored.map(|s| sv[s as usize]),
                locked: p.locked.map(|s| sv[s as usize]),
                excluded: p.excluded.iter().map(|&(s, r)| (sv[s as usize], st[r as usize])).collect(),
                hint: match &p.hint {
                    Hint::None => Hint::None,
                    Hint::All => Hint::All,
                    Hint::Some(v) => Hint::Some(v.iter().map(|&s| sv[s as usize]).collect()),
                },
            };
        }
        for (i, s) in self.solvs.iter().enumerate() {
            out.solvs[sv[i] as usize] = Solv {
                name: pk[s.name as usize],
                ver: s.ver,
                rank: s.rank,
                deps: match &s.deps {
                    Deps::Unknown(r) => Deps::Unknown(st[*r as usize]),
                    Deps::Known { reqs, cons } => Deps::Known {
                        reqs: reqs.iter().map(mreq).collect(),
                        cons: cons.iter().map(|&v| vs[v as usize]).collect(),
                    },
                },
            };
        }
        for (i, v) in self.vsets.iter().enumerate() {
            out.vsets[vs[i] as usize] = VSet {
                name: pk[v.name as usize],
                matching: v.matching.iter().map(|&s| sv[s as usize]).collect(),
                label: v.label.clone(),
            };
        }
        for (i, u) in self.unions.iter().enumerate() {
            out.unions[un[i] as usize] = u.iter().map(|&v| vs[v as usize]).collect();
        }
        for (i, s) in self.strings.iter().enumerate() {
            out.strings[st[i] as usize] = s.clone();
        }
        for s in &out.solvs {
            if s.name == hole_pkg {
                need_hole_pkg = true;
            }
        }
        for v in &out.vsets {
            if v.name == hole_pkg {
                need_hole_pkg = true;
            }
        }
        if need_hole_pkg {
            out.pkgs.push(Pkg {
                name: "holes".into(),
                candidates: Some(vec![]),
                favored: None,
                locked: None,
                excluded: vec![],
                hint: Hint::None,
            });
        }
        let prob = Prob {
            reqs: p.reqs.iter().map(mreq).collect(),
            cons: p.cons.iter().map(|&v| vs[v as usize]).collect(),
            soft: p.soft.iter().map(|&s| sv[s as usize]).collect(),
        };
        (out, prob)
    }
}

/// Events of the provider log. Call events are appended before the pause point of the
/// callback, return events after it (client boundary).
#[derive(Clone, Debug, PartialEq, Eq, Serialize, Deserialize)]
pub enum Ev {
    CandCall(u32),
    CandRet(u32),
    DepsCall(u32),
    DepsRet(u32),
    /// The future of a get_candidates / get_dependencies call was dropped before the provider
    /// answered (cancellation, or a provider that abandons its own re-entrant cache query).
    CandDropped(u32),
    DepsDropped(u32),
    /// Brackets the moment at which the PROVIDER abandons re-entrant cache queries of its own
    /// (`true` = begins, `false` = done): provider calls dropped in between were given up by the
    /// provider, not by the solver.
    ProviderDrops(bool),
    Filter(u32, bool),
    FilterRet(u32, bool),
    Sort(Vec<u32>),
    SortRet(Vec<u32>),
    CancelPoll(usize, bool),
    /// The solver future returned `Pending`; the payload is the multiset of parked tags.
    Quiescent(Vec<Ev>),
    /// The executor released the parked future with this tag.
    Release(Box<Ev>),
    /// Marks the start of the n-th `solve` call on a reused solver.
    SolveStart(usize),
    SolveEnd(usize),
    /// The poll with this index (the `CancelPoll` event that follows) was made while one of the
    /// provider's own re-entrant cache queries was being polled: its answer goes to the provider.
    PollForProvider(usize),
    /// The cancellation signal was raised (sticky) while the provider handled the callback event
    /// with this index (`Cancel::RaisedAt`).
    Raised(usize),
}

impl Ev {
    pub fn kind(&self) -> &'static str {
        match self {
            Ev::CandCall(_) => "get_candidates",
            Ev::CandRet(_) => "get_candidates(return)",
            Ev::DepsCall(_) => "get_dependencies",
            Ev::DepsRet(_) => "get_dependencies(return)",
            Ev::Filter(..) | Ev::FilterRet(..) => "filter_candidates",
            Ev::Sort(_) | Ev::SortRet(_) => "sort_candidates",
            Ev::CancelPoll(..) => "poll",
            Ev::SolveEnd(_) => "the end of solve",
            _ => "other",
        }
    }
}

/// Payload of the panic that is raised when a logical step budget is exhausted.
pub struct BudgetExceeded;

pub const PAUSE_CANDS: u8 = 1;
pub const PAUSE_DEPS: u8 = 2;
pub const PAUSE_FILTER: u8 = 4;
pub const PAUSE_SORT: u8 = 8;
pub const PAUSE_ALL: u8 = 15;

/// How the cancellation signal behaves.
#[derive(Clone, Copy, Debug, Serialize, Deserialize, PartialEq, Eq)]
pub enum Cancel {
    Never,
    /// fire at poll index k and at every later poll
    Sticky(usize),
    /// fire at poll index k only
    Transient(usize),
    /// the application raises the signal (for good) at the moment the provider logs its j-th
    /// callback event (call and return events of all four callbacks are counted together): every
    /// poll from then on answers `Some`
    RaisedAt(usize),
}

pub struct Prov {
    pub u: Rc<Universe>,
    pub sched: Rc<Sched>,
    pub polls: Cell<usize>,
    pub cancel: Cell<Cancel>,
    /// which callbacks suspend (only relevant when the scheduler is enabled)
    pub pause_mask: Cell<u8>,
    /// total number of callbacks + polls; exceeding `budget` unwinds with `BudgetExceeded`
    pub steps: Cell<u64>,
    pub budget: Cell<u64>,
    /// if set, `sort_candidates` queries the solver cache re-entrantly (C20)
    pub reentrant_sort: Cell<bool>,
    /// observations made by re-entrant queries: (description, ok)
    pub reentrant_obs: RefCell<Vec<String>>,
    pub reentrant_queries: Cell<u64>,
    /// if set (together with `reentrant_sort`), the provider polls some of its re-entrant cache
    /// queries once and abandons them when they are not ready (a timeout / select! in real code)
    pub abandon: Cell<bool>,
    pub abandoned: Cell<u64>,
    /// callback events (calls and returns) seen so far; whether `Cancel::RaisedAt` has been raised
    pub cb_events: Cell<usize>,
    pub raised: Cell<bool>,
    /// if set, `sort_candidates` is not a pure function of its input: candidates whose
    /// dependencies the cache can already provide at that moment are preferred (then rank)
    pub stateful_sort: Cell<bool>,
    /// > 0 while one of the provider's OWN (re-entrant) cache queries is being polled: a poll of the
    /// cancellation signal made then is made on behalf of the provider, not of the solver
    pub in_provider_query: Cell<u32>,
    /// H3: value of the repository's propagation-round counter at the last provider event, number
    /// of rounds observed, and what the round monitor objected to
    pub last_round: Cell<u64>,
    pub rounds_seen: Cell<u64>,
    pub round_faults: RefCell<Vec<String>>,
}

/// Marks the polls of a future as "made by the provider" (`Prov::in_provider_query`).
pub struct ProviderSide<'a, F> {
    pub prov: &'a Prov,
    pub fut: std::pin::Pin<Box<F>>,
}
impl<'a, F: std::future::Future> std::future::Future for ProviderSide<'a, F> {
    type Output = F::Output;
    fn poll(mut self: std::pin::Pin<&mut Self>, cx: &mut std::task::Context<'_>) -> std::task::Poll<F::Output> {
        let this = &mut *self;
        this.prov.in_provider_query.set(this.prov.in_provider_query.get() + 1);
        let r = this.fut.as_mut().poll(cx);
        this.prov.in_provider_query.set(this.prov.in_provider_query.get() - 1);
        r
    }
}
pub fn provider_side<'a, F: std::future::Future>(prov: &'a Prov, fut: F) -> ProviderSide<'a, F> {
    ProviderSide { prov, fut: Box::pin(fut) }
}

/// Logs that a provider call was dropped before it was answered.
struct CallGuard<'a> {
    prov: &'a Prov,
    ev: Option<Ev>,
}
impl Drop for CallGuard<'_> {
    fn drop(&mut self) {
        if let Some(e) = self.ev.take() {
            if let Ok(mut l) = self.prov.sched.log.try_borrow_mut() {
                l.push(e);
            }
        }
    }
}

impl Prov {
    pub fn new(u: Rc<Universe>) -> Self {
        Prov {
            u,
            sched: Rc::new(Sched::default()),
            polls: Cell::new(0),
            cancel: Cell::new(Cancel::Never),
            pause_mask: Cell::new(PAUSE_CANDS | PAUSE_DEPS),
            steps: Cell::new(0),
            budget: Cell::new(u64::MAX),
            reentrant_sort: Cell::new(false),
            reentrant_obs: Default::default(),
            reentrant_queries: Cell::new(0),
            abandon: Cell::new(false),
            abandoned: Cell::new(0),
            cb_events: Cell::new(0),
            raised: Cell::new(false),
            stateful_sort: Cell::new(false),
            in_provider_query: Cell::new(0),
            last_round: Cell::new(resolvo::verif::verif_propagation_rounds()),
            rounds_seen: Cell::new(0),
            round_faults: Default::default(),
        }
    }
    pub fn with_sched(u: Rc<Universe>, sched: Rc<Sched>) -> Self {
        let mut p = Prov::new(u);
        p.sched = sched;
        p
    }
    fn pause(&self, kind: u8, tag: Ev) -> Pause {
        Pause::new(self.sched.clone(), tag, self.pause_mask.get() & kind != 0)
    }
    fn step(&self) {
        let s = self.steps.get() + 1;
        self.steps.set(s);
        if s > self.budget.get() {
            std::panic::panic_any(BudgetExceeded);
        }
    }
    /// H3 (trace specification of the documented poll point "at the beginning of each unit
    /// propagation round"): whenever the round counter of the repository has moved since the last
    /// provider event, it has moved by exactly one and the event that sees the new value is a poll
    /// of the cancellation signal.
    fn round_monitor(&self, e: &Ev) {
        let now = resolvo::verif::verif_propagation_rounds();
        let last = self.last_round.replace(now);
        if matches!(e, Ev::SolveStart(_)) || now == last {
            return;
        }
        self.rounds_seen.set(self.rounds_seen.get() + (now - last));
        let fault = if !matches!(e, Ev::CancelPoll(..)) {
            Some(format!("a propagation round began and the next provider event is not a poll but {}", e.kind()))
        } else if now - last > 1 {
            Some("a propagation round passed without a poll".to_string())
        } else {
            None
        };
        if let Some(f) = fault {
            let mut v = self.round_faults.borrow_mut();
            if v.len() < 4 {
                v.push(f);
            }
        }
    }
    pub fn log(&self, e: Ev) {
        self.round_monitor(&e);
        let cb = matches!(e, Ev::CandCall(_) | Ev::CandRet(_) | Ev::DepsCall(_) | Ev::DepsRet(_) | Ev::Filter(..) | Ev::FilterRet(..) | Ev::Sort(_) | Ev::SortRet(_));
        self.sched.log.borrow_mut().push(e);
        if cb {
            let c = self.cb_events.get();
            self.cb_events.set(c + 1);
            if self.cancel.get() == Cancel::RaisedAt(c) && !self.raised.get() {
                self.raised.set(true);
                self.sched.log.borrow_mut().push(Ev::Raised(c));
            }
        }
    }
    pub fn take_log(&self) -> Vec<Ev> {
        self.sched.log.borrow().clone()
    }
}

impl Interner for Prov {
    fn display_solvable(&self, s: SolvableId) -> impl Display + '_ {
        self.u.solv_label(s.0)
    }
    fn display_name(&self, n: NameId) -> impl Display + '_ {
        self.u.pkgs[n.0 as usize].name.clone()
    }
    fn display_version_set(&self, v: VersionSetId) -> impl Display + '_ {
        self.u.vsets[v.0 as usize].label.clone()
    }
    fn display_string(&self, s: StringId) -> impl Display + '_ {
        self.u.strings[s.0 as usize].clone()
    }
    fn version_set_name(&self, v: VersionSetId) -> NameId {
        NameId(self.u.vsets[v.0 as usize].name)
    }
    fn solvable_name(&self, s: SolvableId) -> NameId {
        NameId(self.u.solvs[s.0 as usize].name)
    }
    fn version_sets_in_union(&self, u: VersionSetUnionId) -> impl Iterator<Item = VersionSetId> {
        UnionIter { inner: self.u.unions[u.0 as usize].clone().into_iter(), opaque: self.u.union_iter == 1 }
    }
}

/// The members of a union, with or without size information.
pub struct UnionIter {
    inner: std::vec::IntoIter<u32>,
    opaque: bool,
}
impl Iterator for UnionIter {
    type Item = VersionSetId;
    fn next(&mut self) -> Option<VersionSetId> {
        self.inner.next().map(VersionSetId)
    }
    fn size_hint(&self) -> (usize, Option<usize>) {
        if self.opaque { (0, None) } else { self.inner.size_hint() }
    }
}

pub fn to_req(r: Req) -> Requirement {
    match r {
        Req::Single(v) => Requirement::Single(VersionSetId(v)),
        Req::Union(u) => Requirement::Union(VersionSetUnionId(u)),
    }
}
pub fn from_req(r: Requirement) -> Req {
    match r {
        Requirement::Single(v) => Req::Single(v.0),
        Requirement::Union(u) => Req::Union(u.0),
    }
}

impl DependencyProvider for Prov {
    async fn filter_candidates(
        &self,
        candidates: &[SolvableId],
        version_set: VersionSetId,
        inverse: bool,
    ) -> Vec<SolvableId> {
        self.step();
        self.log(Ev::Filter(version_set.0, inverse));
        self.pause(PAUSE_FILTER, Ev::Filter(version_set.0, inverse)).await;
        self.log(Ev::FilterRet(version_set.0, inverse));
        let m = &self.u.vsets[version_set.0 as usize].matching;
        let mut out: Vec<SolvableId> = candidates.iter().copied().filter(|c| m.contains(&c.0) != inverse).collect();
        match self.u.filter_order {
            1 => out.reverse(),
            2 => out.sort_by_key(|s| s.0),
            3 => out.sort_by_key(|s| std::cmp::Reverse(s.0)),
            _ => {}
        }
        out
    }

    async fn get_candidates(&self, name: NameId) -> Option<Candidates> {
        self.step();
        self.log(Ev::CandCall(name.0));
        let mut guard = CallGuard { prov: self, ev: Some(Ev::CandDropped(name.0)) };
        self.pause(PAUSE_CANDS, Ev::CandCall(name.0)).await;
        guard.ev = None;
        self.log(Ev::CandRet(name.0));
        let p = &self.u.pkgs[name.0 as usize];
        let c = p.candidates.as_ref()?;
        Some(Candidates {
            candidates: c.iter().map(|&s| SolvableId(s)).collect(),
            favored: p.favored.map(SolvableId),
            locked: p.locked.map(SolvableId),
            excluded: p.excluded.iter().map(|&(s, r)| (SolvableId(s), StringId(r))).collect(),
            hint_dependencies_available: match &p.hint {
                Hint::None => HintDependenciesAvailable::None,
                Hint::All => HintDependenciesAvailable::All,
                Hint::Some(v) => {
                    HintDependenciesAvailable::Some(v.iter().map(|&s| SolvableId(s)).collect())
                }
            },
        })
    }

    async fn sort_candidates(&self, solver: &SolverCache<Self>, solvables: &mut [SolvableId]) {
        self.step();
        let tag: Vec<u32> = solvables.iter().map(|s| s.0).collect();
        self.log(Ev::Sort(tag.clone()));
        self.pause(PAUSE_SORT, Ev::Sort(tag.clone())).await;
        if self.reentrant_sort.get() {
            crate::monitors::c20::reentrant_queries(self, solver, solvables).await;
        }
        if self.stateful_sort.get() {
            solvables.sort_by_key(|s| (!solver.are_dependencies_available_for(*s), self.u.solvs[s.0 as usize].rank));
        } else {
            solvables.sort_by_key(|s| self.u.solvs[s.0 as usize].rank);
        }
        self.log(Ev::SortRet(solvables.iter().map(|s| s.0).collect()));
    }

    async fn get_dependencies(&self, solvable: SolvableId) -> Dependencies {
        self.step();
        self.log(Ev::DepsCall(solvable.0));
        let mut guard = CallGuard { prov: self, ev: Some(Ev::DepsDropped(solvable.0)) };
        self.pause(PAUSE_DEPS, Ev::DepsCall(solvable.0)).await;
        guard.ev = None;
        self.log(Ev::DepsRet(solvable.0));
        match &self.u.solvs[solvable.0 as usize].deps {
            Deps::Unknown(r) => Dependencies::Unknown(StringId(*r)),
            Deps::Known { reqs, cons } => Dependencies::Known(KnownDependencies {
                requirements: reqs.iter().map(|&r| to_req(r)).collect(),
                constrains: cons.iter().map(|&v| VersionSetId(v)).collect(),
            }),
        }
    }

    fn should_cancel_with_value(&self) -> Option<Box<dyn Any>> {
        self.step();
        let k = self.polls.get();
        self.polls.set(k + 1);
        let fire = match self.cancel.get() {
            Cancel::Never => false,
            Cancel::Sticky(c) => k >= c,
            Cancel::Transient(c) => k == c,
            Cancel::RaisedAt(_) => self.raised.get(),
        };
        if self.in_provider_query.get() > 0 {
            self.log(Ev::PollForProvider(k));
        }
        self.log(Ev::CancelPoll(k, fire));
        if fire { Some(Box::new(k)) } else { None }
    }
}
