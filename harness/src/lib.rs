//! rvmon: runtime monitors for resolvo (see /verif/DESIGN.md).
#![allow(clippy::all)]
pub mod campaign;
pub mod corpus;
pub mod fuzz;
pub mod gener;
pub mod hooks;
pub mod monitors;
pub mod reference;
pub mod report;
pub mod run;
pub mod sched;
pub mod universe;
