//! Coverage-guided driving of the monitors (libFuzzer): the fuzzer's input is the tape from which a
//! property's own generator draws its choices, the oracle is the property's own monitor.
//! Observations are accumulated per process and written to `$RVMON_FUZZ_OUT/part-<pid>.json`;
//! the first case of every violation kind is written as an ordinary replay file
//! `$RVMON_FUZZ_OUT/viol-<property>-<kind>.json` (`./check <Cxx> --replay <file>`).
use std::{path::PathBuf, sync::Mutex};

use serde_json::{Value, json};

use crate::{
    campaign::Monitor,
    gener::Rng,
    monitors::*,
    report::{Ctx, Report, Tier},
};

struct State {
    prop: String,
    out: Option<PathBuf>,
    rep: Report,
    execs: u64,
    tape_bytes: u64,
    tape_used: u64,
}

// libFuzzer calls the target on one thread; a global (not a thread-local) so that the exit handler
// can still read it
static STATE: Mutex<Option<State>> = Mutex::new(None);

unsafe extern "C" {
    fn atexit(cb: extern "C" fn()) -> i32;
}

extern "C" fn flush_at_exit() {
    flush();
}

fn flush() {
    {
        if let Ok(g) = STATE.try_lock() {
            if let Some(st) = g.as_ref() {
                if let Some(out) = &st.out {
                    let mut j = st.rep.to_json();
                    j["property_id"] = json!(st.prop);
                    j["fuzz_execs"] = json!(st.execs);
                    j["tape_bytes_offered"] = json!(st.tape_bytes);
                    j["tape_bytes_consumed"] = json!(st.tape_used);
                    j["maxima"]["max-provider-steps-any-solve"] = json!(crate::run::MAX_STEPS_SEEN.load(std::sync::atomic::Ordering::Relaxed));
                    j["maxima"]["max-solver-loop-iterations-any-solve"] = json!(crate::run::MAX_LOOP_ITERATIONS_SEEN.load(std::sync::atomic::Ordering::Relaxed));
                    let p = out.join(format!("part-{}.json", std::process::id()));
                    let tmp = out.join(format!("part-{}.json.tmp", std::process::id()));
                    if std::fs::write(&tmp, serde_json::to_string(&j).unwrap_or_default()).is_ok() {
                        let _ = std::fs::rename(&tmp, &p);
                    }
                }
            }
        }
    }
}

fn run<M: Monitor>(m: &M, data: &[u8], st: &mut State) {
    let mut rng = Rng::from_tape(data);
    // some generators select a shape by the case index: taken from the tape as well
    let index = rng.below(65536);
    let case = m.generate(&mut rng, Tier::Quick, index);
    st.tape_bytes += data.len() as u64;
    st.tape_used += rng.consumed().min(data.len()) as u64;
    let mut ctx = Ctx { rep: &mut st.rep, case_seed: 0, tier: Tier::Quick, pending: vec![], verbose: false };
    match crate::run::catch(|| m.check(&case, &mut ctx)) {
        crate::run::Caught::Ok(()) => {}
        crate::run::Caught::Panic(pi) => {
            if pi.in_harness() {
                ctx.rep.inconclusive(&format!("harness panic: {}", pi.signature()));
            } else {
                ctx.violation(format!("solver state could not be inspected after the call: panic in {}", pi.signature()), String::new());
            }
        }
        _ => ctx.rep.inconclusive("monitor aborted (deadlock / budget outside a solve call)"),
    }
    let pending = std::mem::take(&mut ctx.pending);
    st.rep.cases += 1;
    for (kind, detail) in pending {
        let n = st.rep.violation_counts.entry(kind.clone()).or_insert(0);
        *n += 1;
        if *n == 1 {
            if let Some(out) = &st.out {
                let slug: String = kind.chars().map(|c| if c.is_ascii_alphanumeric() { c } else { '_' }).take(60).collect();
                let path = out.join(format!("viol-{}-{}.json", m.id(), slug));
                if !path.exists() {
                    let body = json!({
                        "property": m.id(), "kind": kind, "detail": detail, "case_seed": 0,
                        "tier": "quick", "case": serde_json::to_value(&case).unwrap_or(Value::Null),
                        "tape": data.iter().map(|b| format!("{b:02x}")).collect::<String>(),
                    });
                    let _ = std::fs::write(&path, serde_json::to_string_pretty(&body).unwrap_or_default());
                }
            }
        }
    }
}

/// One fuzzer execution: the property is taken from `$RVMON_FUZZ_PROP` (default C04).
pub fn one(data: &[u8]) {
    let n = {
        let mut g = STATE.lock().unwrap_or_else(|e| e.into_inner());
        if g.is_none() {
            // libfuzzer-sys installs a panic hook that aborts: the monitors catch panics themselves
            crate::run::install_panic_hook();
            let out = std::env::var_os("RVMON_FUZZ_OUT").map(PathBuf::from);
            if let Some(o) = &out {
                let _ = std::fs::create_dir_all(o);
            }
            *g = Some(State { prop: std::env::var("RVMON_FUZZ_PROP").unwrap_or("C04".into()), out, rep: Report::default(), execs: 0, tape_bytes: 0, tape_used: 0 });
            unsafe {
                atexit(flush_at_exit);
            }
        }
        let st = g.as_mut().unwrap();
        st.execs += 1;
        match st.prop.clone().as_str() {
            "C01" => run(&c01::C01, data, st),
            "C02" => run(&c02::C02, data, st),
            "C03" => run(&c03::C03, data, st),
            "C04" => run(&c04::C04, data, st),
            "C05" => run(&c05::C05, data, st),
            "C07" => run(&c07::C07, data, st),
            "C08" => run(&c08::C08, data, st),
            "C09" => run(&c09::C09, data, st),
            "C10" => run(&c10::C10, data, st),
            "C11" => run(&c11::C11, data, st),
            "C12" => run(&c12::C12, data, st),
            "C13" => run(&c13::C13, data, st),
            "C14" => run(&c14::C14, data, st),
            "C15" => run(&c15::C15, data, st),
            "C16" => run(&c16::C16, data, st),
            "C18" => run(&c18::C18, data, st),
            "C19" => run(&c19::C19, data, st),
            "C20" => run(&c20::C20, data, st),
            other => panic!("harness: property {other} has no fuzz driver"),
        }
        st.execs
    };
    if n % 2000 == 0 {
        flush();
    }
}
