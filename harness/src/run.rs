//! Running the real solver on a universe: sessions, outcomes, panic capture, counting writer.
use std::{cell::RefCell, fmt::Write as _, rc::Rc};

use resolvo::{
    Problem, SolvableId, Solver, UnsolvableOrCancelled, VersionSetId,
    conflict::{Conflict, ConflictGraph},
};
use serde::{Deserialize, Serialize};

use crate::{
    sched::{Deadlock, ManualRt, Policy},
    universe::*,
};

thread_local! {
    static LAST_PANIC_LOC: RefCell<String> = const { RefCell::new(String::new()) };
    /// per worker: a small file that names the case this thread is working on and the last panic
    /// it saw; survives an abort of the process (non-unwinding panic, stack overflow, OOM)
    static INFLIGHT: RefCell<Option<std::fs::File>> = const { RefCell::new(None) };
    static PANICS_IN_CASE: std::cell::Cell<u32> = const { std::cell::Cell::new(0) };
}

/// Open the in-flight file of this worker thread.
pub fn inflight_open(dir: &std::path::Path, worker: usize) {
    let _ = std::fs::create_dir_all(dir);
    if let Ok(f) = std::fs::OpenOptions::new().create(true).write(true).truncate(true).open(dir.join(format!("w{worker}"))) {
        INFLIGHT.with(|c| *c.borrow_mut() = Some(f));
    }
}

fn inflight_write(offset: u64, text: &str, width: usize) {
    use std::os::unix::fs::FileExt;
    INFLIGHT.with(|c| {
        if let Ok(g) = c.try_borrow() {
            if let Some(f) = g.as_ref() {
                let mut buf = vec![b' '; width];
                let b = text.as_bytes();
                let n = b.len().min(width - 1);
                buf[..n].copy_from_slice(&b[..n]);
                buf[width - 1] = b'\n';
                let _ = f.write_at(&buf, offset);
            }
        }
    });
}

/// Record the case this worker starts (case seed 0 = idle).
pub fn inflight_case(cs: u64, index: u64) {
    inflight_write(0, &format!("{cs} {index}"), 48);
    if PANICS_IN_CASE.with(|c| c.replace(0)) > 0 {
        inflight_write(48, "", 400);
        inflight_write(448, "", 400);
    }
}

/// Install a silent panic hook that remembers the location of the last panic of this thread.
pub fn install_panic_hook() {
    std::panic::set_hook(Box::new(|info| {
        let loc = info
            .location()
            .map(|l| {
                let f = l.file();
                // keep the path relative to the repository so that signatures are stable; panics
                // raised by the harness itself are marked
                let own = f.contains("/harness/src/") || f.starts_with("src/") || f.contains("/ffi_miri/");
                let f = f.rsplit_once("/src/").map(|(_, b)| format!("src/{b}")).unwrap_or(f.to_string());
                format!("{}{}:{}", if own { "harness:" } else { "" }, f, l.line())
            })
            .unwrap_or_default();
        let msg = info.payload().downcast_ref::<&str>().map(|s| s.to_string()).or_else(|| info.payload().downcast_ref::<String>().cloned()).unwrap_or_default();
        // first and last panic of the current case
        let nth = PANICS_IN_CASE.with(|c| c.replace(c.get() + 1));
        inflight_write(if nth == 0 { 48 } else { 448 }, &format!("{loc} {}", msg.replace('\n', " ")), 400);
        LAST_PANIC_LOC.with(|c| *c.borrow_mut() = loc);
        if std::env::var_os("RVMON_BT").is_some() {
            eprintln!("{info}\n{}", std::backtrace::Backtrace::force_capture());
        }
    }));
}

#[derive(Clone, Debug, Serialize, Deserialize, PartialEq, Eq)]
pub struct PanicInfo {
    pub site: String,
    pub message: String,
}

impl PanicInfo {
    /// true if the panic was raised by harness code (not by the repository under test)
    pub fn in_harness(&self) -> bool {
        self.site.starts_with("harness:")
    }
    pub fn signature(&self) -> String {
        // numbers inside the message vary from case to case (lengths, indices): normalise them so
        // that one defect has one signature; the site keeps its line number
        let mut m = String::new();
        let mut in_digits = false;
        for c in self.message.chars().take(120) {
            if c.is_ascii_digit() {
                if !in_digits {
                    m.push('N');
                }
                in_digits = true;
            } else {
                in_digits = false;
                m.push(if c == '\n' { ' ' } else { c });
            }
        }
        format!("{} {}", self.site, m)
    }
}

pub enum Caught<T> {
    Ok(T),
    Panic(PanicInfo),
    Deadlock,
    Budget,
}

/// Run `f`, converting unwinds into values.
pub fn catch<T>(f: impl FnOnce() -> T) -> Caught<T> {
    match std::panic::catch_unwind(std::panic::AssertUnwindSafe(f)) {
        Ok(v) => Caught::Ok(v),
        Err(e) => {
            if e.downcast_ref::<Deadlock>().is_some() {
                return Caught::Deadlock;
            }
            if e.downcast_ref::<BudgetExceeded>().is_some() || e.downcast_ref::<resolvo::verif::VerifStepLimitExceeded>().is_some() {
                return Caught::Budget;
            }
            let message = e
                .downcast_ref::<String>()
                .cloned()
                .or_else(|| e.downcast_ref::<&str>().map(|s| s.to_string()))
                .unwrap_or("<non-string panic payload>".into());
            let site = LAST_PANIC_LOC.with(|c| c.borrow().clone());
            Caught::Panic(PanicInfo { site, message })
        }
    }
}

/// A `fmt::Write` that counts and fails once a budget is exceeded.
pub struct Limited {
    pub n: usize,
    pub cap: usize,
    pub keep: usize,
    pub buf: String,
}
impl Limited {
    pub fn new(cap: usize, keep: usize) -> Self {
        Limited { n: 0, cap, keep, buf: String::new() }
    }
}
impl std::fmt::Write for Limited {
    fn write_str(&mut self, s: &str) -> std::fmt::Result {
        self.n += s.len();
        if self.buf.len() < self.keep {
            self.buf.push_str(s);
        }
        if self.n > self.cap { Err(std::fmt::Error) } else { Ok(()) }
    }
}

#[derive(Clone, Debug, Serialize, Deserialize, PartialEq, Eq)]
pub enum Mode {
    /// provider never yields
    Sync,
    /// manual executor with the given release policy
    Async(Policy),
}

#[derive(Clone, Debug, Serialize, Deserialize, PartialEq)]
pub struct SolveOpts {
    pub mode: Mode,
    pub pause_mask: u8,
    pub cancel: Cancel,
    pub activity: Option<(f32, f32)>,
    pub budget: u64,
}

impl Default for SolveOpts {
    fn default() -> Self {
        SolveOpts {
            mode: Mode::Sync,
            pause_mask: PAUSE_CANDS | PAUSE_DEPS,
            cancel: Cancel::Never,
            activity: None,
            budget: DEFAULT_BUDGET,
        }
    }
}

/// Logical step budget for one solve (provider callbacks + cancellation polls): about two orders
/// of magnitude above the maximum observed on the unchanged tree for the generated sizes (the
/// observed maximum is reported in every evidence file as `max-provider-steps-any-solve`). It is
/// deliberately not larger: a livelock that learns one clause per round is quadratic in it.
pub const DEFAULT_BUDGET: u64 = 30_000;

/// Logical budget for the solver's own loops (hook H4: iterations of the decision loop, propagation,
/// watch-list traversal and conflict analysis, counted inside resolvo): bounds loops that never call
/// the provider. Three orders of magnitude above the maximum observed on the unchanged tree
/// (reported in every evidence file as `max-solver-loop-iterations-any-solve`).
pub const LOOP_BUDGET: u64 = 50_000_000;

/// Highest number of solver loop iterations any single solve of this process needed (evidence).
pub static MAX_LOOP_ITERATIONS_SEEN: std::sync::atomic::AtomicU64 = std::sync::atomic::AtomicU64::new(0);

/// Highest number of provider steps any single solve of this process needed (evidence).
pub static MAX_STEPS_SEEN: std::sync::atomic::AtomicU64 = std::sync::atomic::AtomicU64::new(0);

pub enum Outcome {
    Ok(Vec<u32>),
    Unsat(Conflict),
    Cancelled(Option<usize>),
    Panic(PanicInfo),
    Deadlock,
    Budget,
}

impl Outcome {
    pub fn tag(&self) -> &'static str {
        match self {
            Outcome::Ok(_) => "ok",
            Outcome::Unsat(_) => "unsat",
            Outcome::Cancelled(_) => "cancelled",
            Outcome::Panic(_) => "panic",
            Outcome::Deadlock => "deadlock",
            Outcome::Budget => "budget",
        }
    }
    pub fn verdict(&self) -> Option<bool> {
        match self {
            Outcome::Ok(_) => Some(true),
            Outcome::Unsat(_) => Some(false),
            _ => None,
        }
    }
}

pub fn problem(p: &Prob) -> Problem<Vec<SolvableId>> {
    Problem::new()
        .requirements(p.reqs.iter().map(|&r| to_req(r)).collect())
        .constraints(p.cons.iter().map(|&v| VersionSetId(v)).collect())
        .soft_requirements(p.soft.iter().map(|&s| SolvableId(s)).collect::<Vec<_>>())
}

/// A solver instance over a universe, driven by the manual runtime.
pub struct Session {
    pub u: Rc<Universe>,
    pub solver: Solver<Prov, ManualRt>,
    pub solves: usize,
}

impl Session {
    pub fn new(u: Rc<Universe>, opts: &SolveOpts) -> Session {
        let prov = Prov::new(u.clone());
        prov.pause_mask.set(opts.pause_mask);
        prov.cancel.set(opts.cancel);
        prov.budget.set(opts.budget);
        let rt = match &opts.mode {
            Mode::Sync => ManualRt::synchronous(prov.sched.clone()),
            Mode::Async(p) => ManualRt::new(prov.sched.clone(), p.clone()),
        };
        let mut solver = Solver::new(prov).with_runtime(rt);
        if let Some((a, d)) = opts.activity {
            solver = solver.with_activity_params(a, d);
        }
        Session { u, solver, solves: 0 }
    }

    pub fn prov(&self) -> &Prov {
        self.solver.provider()
    }

    /// Calls `Solver::solve`, converting every way out into an `Outcome`.
    pub fn solve(&mut self, p: &Prob) -> Outcome {
        let n = self.solves;
        self.solves += 1;
        self.prov().log(Ev::SolveStart(n));
        self.prov().steps.set(0);
        resolvo::verif::verif_set_step_limit(LOOP_BUDGET);
        let r = catch(|| self.solver.solve(problem(p)));
        MAX_LOOP_ITERATIONS_SEEN.fetch_max(resolvo::verif::verif_steps(), std::sync::atomic::Ordering::Relaxed);
        resolvo::verif::verif_set_step_limit(u64::MAX);
        MAX_STEPS_SEEN.fetch_max(self.prov().steps.get(), std::sync::atomic::Ordering::Relaxed);
        self.prov().log(Ev::SolveEnd(n));
        match r {
            Caught::Ok(Ok(v)) => Outcome::Ok(v.iter().map(|s| s.0).collect()),
            Caught::Ok(Err(UnsolvableOrCancelled::Unsolvable(c))) => Outcome::Unsat(c),
            Caught::Ok(Err(UnsolvableOrCancelled::Cancelled(v))) => {
                Outcome::Cancelled(v.downcast_ref::<usize>().copied())
            }
            Caught::Panic(p) => Outcome::Panic(p),
            Caught::Deadlock => Outcome::Deadlock,
            Caught::Budget => Outcome::Budget,
        }
    }

    pub fn log(&self) -> Vec<Ev> {
        self.prov().take_log()
    }

    pub fn graph(&self, c: &Conflict) -> Caught<ConflictGraph> {
        catch(|| c.graph(&self.solver))
    }

    /// Renders the user friendly message into a budgeted writer. Returns (over budget, bytes,
    /// text kept).
    pub fn render(&self, c: &Conflict, cap: usize, keep: usize) -> Caught<(bool, usize, String)> {
        catch(|| {
            let d = c.display_user_friendly(&self.solver);
            let mut w = Limited::new(cap, keep);
            let r = write!(w, "{}", d);
            (r.is_err(), w.n, w.buf)
        })
    }

    pub fn graphviz(&self, g: &ConflictGraph, simplify: bool) -> Caught<String> {
        catch(|| {
            let mut out = Vec::new();
            g.graphviz(&mut out, self.solver.provider(), simplify).unwrap();
            String::from_utf8_lossy(&out).into_owned()
        })
    }
}

/// One-shot helper: fresh session, one solve.
pub fn solve_once(u: &Rc<Universe>, p: &Prob, opts: &SolveOpts) -> (Session, Outcome) {
    let mut s = Session::new(u.clone(), opts);
    let o = s.solve(p);
    (s, o)
}
