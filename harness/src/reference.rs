//! Independent executable statement of the rules (DESIGN §2.2). Written from the documentation of
//! `DependencyProvider` / `Problem` and the property statements only; shares no code or data
//! structure with resolvo.
use std::collections::{BTreeMap, BTreeSet};

use crate::universe::*;

pub struct Ref<'a> {
    pub u: &'a Universe,
    cands: Vec<Vec<u32>>,
    noncands: Vec<Vec<u32>>,
    sorted: Vec<Vec<u32>>,
}

pub enum Exists {
    Sat(Vec<u32>),
    Unsat,
    /// step budget exhausted
    Unknown,
}

impl Exists {
    pub fn is_sat(&self) -> bool {
        matches!(self, Exists::Sat(_))
    }
    pub fn is_unsat(&self) -> bool {
        matches!(self, Exists::Unsat)
    }
}

impl<'a> Ref<'a> {
    pub fn new(u: &'a Universe) -> Self {
        let mut cands = vec![];
        let mut noncands = vec![];
        let mut sorted = vec![];
        for vs in &u.vsets {
            let pk = u.pkgs.get(vs.name as usize);
            let list: &[u32] = pk.and_then(|p| p.candidates.as_deref()).unwrap_or(&[]);
            let mut c: Vec<u32> = list.iter().copied().filter(|s| vs.matching.contains(s)).collect();
            let mut n: Vec<u32> = list.iter().copied().filter(|s| !vs.matching.contains(s)).collect();
            // the provider lists the answer of filter_candidates in its own order
            for l in [&mut c, &mut n] {
                match u.filter_order {
                    1 => l.reverse(),
                    2 => l.sort(),
                    3 => l.sort_by_key(|&x| std::cmp::Reverse(x)),
                    _ => {}
                }
            }
            let mut s = c.clone();
            s.sort_by_key(|&x| u.solvs[x as usize].rank); // stable
            if let Some(f) = pk.and_then(|p| p.favored) {
                if let Some(pos) = s.iter().position(|&x| x == f) {
                    let x = s.remove(pos);
                    s.insert(0, x);
                }
            }
            cands.push(c);
            noncands.push(n);
            sorted.push(s);
        }
        Ref { u, cands, noncands, sorted }
    }
    /// matching candidates of a version set, in candidate-list order
    pub fn cands_vs(&self, v: u32) -> &[u32] {
        &self.cands[v as usize]
    }
    /// non-matching candidates of the version set's package
    pub fn noncands_vs(&self, v: u32) -> &[u32] {
        &self.noncands[v as usize]
    }
    /// matching candidates in provider rank order (stable), favored first
    pub fn sorted_vs(&self, v: u32) -> &[u32] {
        &self.sorted[v as usize]
    }
    pub fn vsets_of(&self, r: Req) -> Vec<u32> {
        match r {
            Req::Single(v) => vec![v],
            Req::Union(un) => self.u.unions[un as usize].clone(),
        }
    }
    pub fn sorted_req(&self, r: Req) -> Vec<u32> {
        match r {
            Req::Single(v) => self.sorted[v as usize].clone(),
            Req::Union(un) => self.u.unions[un as usize]
                .iter()
                .flat_map(|&v| self.sorted[v as usize].iter().copied())
                .collect(),
        }
    }
    pub fn req_has(&self, r: Req, pred: impl Fn(u32) -> bool) -> bool {
        match r {
            Req::Single(v) => self.sorted[v as usize].iter().any(|&s| pred(s)),
            Req::Union(un) => self.u.unions[un as usize]
                .iter()
                .any(|&v| self.sorted[v as usize].iter().any(|&s| pred(s))),
        }
    }
    pub fn excluded(&self, s: u32) -> bool {
        let n = self.u.solvs[s as usize].name;
        self.u.pkgs[n as usize].excluded.iter().any(|&(e, _)| e == s)
    }
    pub fn locked_out(&self, s: u32) -> bool {
        let n = self.u.solvs[s as usize].name;
        let p = &self.u.pkgs[n as usize];
        match (p.locked, &p.candidates) {
            (Some(l), Some(c)) => l != s && c.contains(&s),
            _ => false,
        }
    }
    pub fn names_of(&self, reqs: &[Req], cons: &[u32]) -> BTreeSet<u32> {
        let mut n = BTreeSet::new();
        for &r in reqs {
            for v in self.vsets_of(r) {
                n.insert(self.u.vsets[v as usize].name);
            }
        }
        for &v in cons {
            n.insert(self.u.vsets[v as usize].name);
        }
        n
    }

    /// Validity of a full solution; returns the list of violated rules. `soft_named` are exempt
    /// from the lock / exclusion list of their own package only.
    pub fn check(&self, p: &Prob, sol: &[u32], soft_named: &[u32]) -> Vec<String> {
        let mut out = vec![];
        let set: BTreeSet<u32> = sol.iter().copied().collect();
        if set.len() != sol.len() {
            out.push("duplicate: solvable listed twice in solution".into());
        }
        for &s in &set {
            if s as usize >= self.u.solvs.len() {
                out.push(format!("unknown: solvable id {s} does not exist"));
                return out;
            }
        }
        let mut by_name: BTreeMap<u32, Vec<u32>> = BTreeMap::new();
        for &s in &set {
            by_name.entry(self.u.solvs[s as usize].name).or_default().push(s);
        }
        for (n, v) in &by_name {
            if v.len() > 1 {
                out.push(format!(
                    "multi: package {} has {} solvables {:?}",
                    self.u.pkgs[*n as usize].name,
                    v.len(),
                    v
                ));
            }
        }
        let check_req = |who: &str, r: Req, out: &mut Vec<String>| {
            if !self.req_has(r, |s| set.contains(&s)) {
                out.push(format!("unmet: {who} requirement {:?}", r));
            }
        };
        let check_con = |who: &str, v: u32, out: &mut Vec<String>| {
            for &s in self.noncands_vs(v) {
                if set.contains(&s) {
                    out.push(format!("constraint: {who} vs{v} violated by s{s}"));
                }
            }
        };
        for &r in &p.reqs {
            check_req("root", r, &mut out);
        }
        for &v in &p.cons {
            check_con("root", v, &mut out);
        }
        for &s in &set {
            match &self.u.solvs[s as usize].deps {
                Deps::Unknown(_) => out.push(format!("unknown-deps: s{s} has unknown dependencies")),
                Deps::Known { reqs, cons } => {
                    for &r in reqs {
                        check_req(&format!("s{s}"), r, &mut out);
                    }
                    for &v in cons {
                        check_con(&format!("s{s}"), v, &mut out);
                    }
                }
            }
            if !soft_named.contains(&s) {
                if self.excluded(s) {
                    out.push(format!("excluded: s{s} is excluded"));
                }
                if self.locked_out(s) {
                    out.push(format!("locked: s{s} is locked out"));
                }
            }
        }
        out
    }

    /// Does a valid solution for the hard problem exist that contains all of `must`?
    /// Depth first over "first unmet requirement -> each candidate".
    pub fn exists(&self, p: &Prob, must: &[u32], budget: u64) -> Exists {
        let mut chosen: BTreeMap<u32, u32> = BTreeMap::new(); // name -> solvable
        let mut cons: Vec<u32> = p.cons.clone();
        let mut work: Vec<Req> = p.reqs.clone();
        for &m in must {
            if !self.try_add(m, &mut chosen, &mut cons, &mut work) {
                return Exists::Unsat;
            }
        }
        let mut steps = 0u64;
        match self.dfs(&mut chosen, &mut cons, &mut work, &mut steps, budget) {
            Some(true) => Exists::Sat(chosen.values().copied().collect()),
            Some(false) => Exists::Unsat,
            None => Exists::Unknown,
        }
    }
    fn ok_with_cons(&self, s: u32, cons: &[u32]) -> bool {
        cons.iter().all(|&v| !self.noncands_vs(v).contains(&s))
    }
    fn try_add(
        &self,
        s: u32,
        chosen: &mut BTreeMap<u32, u32>,
        cons: &mut Vec<u32>,
        work: &mut Vec<Req>,
    ) -> bool {
        let n = self.u.solvs[s as usize].name;
        if let Some(&c) = chosen.get(&n) {
            return c == s;
        }
        if self.excluded(s) || self.locked_out(s) {
            return false;
        }
        let Deps::Known { reqs, cons: scons } = &self.u.solvs[s as usize].deps else {
            return false;
        };
        if !self.ok_with_cons(s, cons) {
            return false;
        }
        for &v in scons {
            let bad = self.noncands_vs(v);
            if chosen.values().any(|c| bad.contains(c)) || bad.contains(&s) {
                return false;
            }
        }
        chosen.insert(n, s);
        cons.extend(scons.iter().copied());
        work.extend(reqs.iter().copied());
        true
    }
    fn dfs(
        &self,
        chosen: &mut BTreeMap<u32, u32>,
        cons: &mut Vec<u32>,
        work: &mut Vec<Req>,
        steps: &mut u64,
        budget: u64,
    ) -> Option<bool> {
        *steps += 1;
        if *steps > budget {
            return None;
        }
        let mut idx = None;
        for &r in work.iter() {
            if !self.req_has(r, |s| chosen.get(&self.u.solvs[s as usize].name) == Some(&s)) {
                idx = Some(self.sorted_req(r));
                break;
            }
        }
        let Some(cands) = idx else { return Some(true) };
        for s in cands {
            let (c0, k0, w0) = (chosen.clone(), cons.len(), work.len());
            if self.try_add(s, chosen, cons, work) {
                match self.dfs(chosen, cons, work, steps, budget) {
                    Some(true) => return Some(true),
                    None => return None,
                    Some(false) => {}
                }
            }
            *chosen = c0;
            cons.truncate(k0);
            work.truncate(w0);
        }
        Some(false)
    }

    /// Greedy first-choice closure (C07). `Some(G)` iff the precondition of C07 holds: the closure
    /// is a valid selection and every requirement in it is met by exactly its first choice.
    pub fn greedy(&self, p: &Prob) -> Option<Vec<u32>> {
        let (g, all_reqs) = self.first_choice_closure(&p.reqs, &[])?;
        if !self.check(&p.hard(), &g, &[]).is_empty() {
            return None;
        }
        for (r, f) in all_reqs {
            if self.req_has(r, |s| s != f && g.contains(&s)) {
                return None;
            }
        }
        Some(g)
    }

    /// First-choice closure of a list of requirements on top of already chosen solvables.
    /// Returns (chosen in discovery order, (requirement, first choice) pairs) or None if some
    /// requirement has no candidate or a chosen solvable has unknown dependencies.
    pub fn first_choice_closure(
        &self,
        reqs: &[Req],
        start: &[u32],
    ) -> Option<(Vec<u32>, Vec<(Req, u32)>)> {
        let mut g: Vec<u32> = vec![];
        let mut reqs: Vec<Req> = reqs.to_vec();
        for &s in start {
            if !g.contains(&s) {
                g.push(s);
                match &self.u.solvs[s as usize].deps {
                    Deps::Unknown(_) => return None,
                    Deps::Known { reqs: rr, .. } => reqs.extend(rr.iter().copied()),
                }
            }
        }
        let mut all_reqs: Vec<(Req, u32)> = vec![];
        let mut i = 0;
        while i < reqs.len() {
            let r = reqs[i];
            i += 1;
            let f = *self.sorted_req(r).first()?;
            all_reqs.push((r, f));
            if !g.contains(&f) {
                g.push(f);
                match &self.u.solvs[f as usize].deps {
                    Deps::Unknown(_) => return None,
                    Deps::Known { reqs: rr, .. } => reqs.extend(rr.iter().copied()),
                }
            }
        }
        Some((g, all_reqs))
    }

    /// Solvables of `sol` reachable from the root requirements and the accepted soft solvables
    /// through requirement edges whose satisfying candidate is itself in `sol` (C05).
    pub fn support(&self, p: &Prob, sol: &[u32]) -> BTreeSet<u32> {
        let set: BTreeSet<u32> = sol.iter().copied().collect();
        let mut reach: BTreeSet<u32> = BTreeSet::new();
        let mut work: Vec<Req> = p.reqs.clone();
        let mut stack: Vec<u32> = p.soft.iter().copied().filter(|s| set.contains(s)).collect();
        loop {
            while let Some(r) = work.pop() {
                for s in self.sorted_req(r) {
                    if set.contains(&s) && !reach.contains(&s) {
                        stack.push(s);
                    }
                }
            }
            let Some(s) = stack.pop() else { break };
            if reach.insert(s) {
                if let Deps::Known { reqs, .. } = &self.u.solvs[s as usize].deps {
                    work.extend(reqs.iter().copied());
                }
            }
        }
        reach
    }
}
