//! C18 — pool interning is stable: equal values share ids and references stay valid.
use std::collections::HashMap;

use resolvo::{NameId, SolvableId, StringId, VersionSetId, VersionSetUnionId, utils::{Pool, VersionSet}};
use serde::{Deserialize, Serialize};
use serde_json::json;

use super::*;
use crate::{
    campaign::Monitor,
    report::{Ctx, Tier},
    run::{Caught, catch},
};

pub struct C18;

#[derive(Clone, Debug, PartialEq, Eq)]
pub struct Vs {
    pub label: String,
    pub members: Vec<u32>,
}
/// A legal but coarse `Hash` (equal values hash equally; many different values collide): whatever
/// the pool keys by version set has to fall back on `Eq`.
impl std::hash::Hash for Vs {
    fn hash<H: std::hash::Hasher>(&self, state: &mut H) {
        (self.members.len() as u32).hash(state);
    }
}

/// Package name types the histories are run with.
pub trait NameLike: Clone + Eq + std::hash::Hash + std::fmt::Debug {
    fn make(s: String) -> Self;
}
impl NameLike for String {
    fn make(s: String) -> Self {
        s
    }
}
/// A name whose `Hash` is coarser than its `Eq` (e.g. a name-with-feature type hashing the base
/// name only): equal hashes for many different names.
#[derive(Clone, Debug, PartialEq, Eq)]
pub struct CoarseName(pub String);
impl std::hash::Hash for CoarseName {
    fn hash<H: std::hash::Hasher>(&self, state: &mut H) {
        (self.0.len() % 5).hash(state);
    }
}
impl NameLike for CoarseName {
    fn make(s: String) -> Self {
        CoarseName(s)
    }
}
#[derive(Clone, Debug, PartialEq, Eq)]
pub struct Rec(pub u32, pub String);
impl std::fmt::Display for Rec {
    fn fmt(&self, f: &mut std::fmt::Formatter<'_>) -> std::fmt::Result {
        write!(f, "{}:{}", self.0, self.1)
    }
}
impl VersionSet for Vs {
    type V = Rec;
}

#[derive(Clone, Debug, Serialize, Deserialize)]
pub enum Op {
    Str(u32),
    Name(u32),
    LookupName(u32),
    Vs(u32, u32),
    Solvable(u32, u32),
    /// indices into the list of version sets interned so far (modulo its length)
    Union(Vec<u32>),
}

#[derive(Clone, Debug, Serialize, Deserialize)]
pub struct C18Case {
    pub ops: Vec<Op>,
    pub revalidate_every: usize,
}

fn string_of(k: u32) -> String {
    format!("string-{k}-{}", "x".repeat((k % 37) as usize))
}
fn name_of(k: u32) -> String {
    format!("pkg-{k}-{}", "n".repeat((k % 23) as usize))
}
fn vs_of(k: u32) -> Vs {
    Vs { label: format!(">={k}{}", "v".repeat((k % 19) as usize)), members: (0..k % 7).collect() }
}

impl Monitor for C18 {
    type Case = C18Case;
    fn id(&self) -> &'static str {
        "C18"
    }
    fn rule(&self) -> String {
        "cases = seeded histories of 50..2000 (one in eighty: 13 000..40 000) Pool operations (intern_string / intern_package_name / lookup_package_name / intern_version_set / intern_solvable / intern_version_set_union with heap-carrying values drawn from small key domains so that repeats are frequent), checked against a HashMap+Vec reference model after every operation: equal values -> same id, different values -> different ids, resolve(id) == interned value, solvable and union ids dense and unique. The ADDRESS at which every name / version set / solvable was first resolved must be the address a later resolve of the same id gives (an element that moved is reported without touching the dangling reference). EVERY reference ever returned (&str, &String, &VS, &Solvable) is kept alive and re-read against its expected value periodically and at the end, so an element that moved on growth is a detectable dangling reference (reported by Miri / ASan, or as a content mismatch). distinct = hash of the operation list; non-trivial = history crossing >= 2 chunk boundaries (128) in some arena while >= 100 references are held".into()
    }
    fn cases(&self, tier: Tier) -> u64 {
        tier.pick(8_000, 160_000)
    }
    fn floor(&self, tier: Tier) -> u64 {
        tier.pick(600, 6_000)
    }
    fn generate(&self, r: &mut Rng, _tier: Tier, _i: u64) -> C18Case {
        if crate::report::small() {
            // under Miri: one arena is pushed across two chunk boundaries, the others stay small
            let len = 290 + r.below(20) as usize;
            let heavy = r.below(3);
            let mut ops = vec![];
            let mut nvs = 0u32;
            for i in 0..len {
                ops.push(if r.chance(9, 10) {
                    match heavy {
                        0 => Op::Solvable(r.below(40) as u32, r.below(1000) as u32),
                        1 => Op::Str(i as u32),
                        _ => {
                            nvs += 1;
                            Op::Vs(r.below(10) as u32, i as u32)
                        }
                    }
                } else {
                    match r.below(5) {
                        0 => Op::Str(r.below(30) as u32),
                        1 => Op::Name(r.below(30) as u32),
                        2 => Op::LookupName(r.below(35) as u32),
                        3 => Op::Solvable(r.below(30) as u32, r.below(1000) as u32),
                        _ if nvs > 0 => Op::Union((0..1 + r.below(4)).map(|_| r.below(nvs as u64) as u32).collect()),
                        _ => Op::Name(r.below(30) as u32),
                    }
                });
            }
            return C18Case { ops, revalidate_every: 64 };
        }
        // one history in eighty is a BULK history: 13 000..40 000 operations over a key domain so
        // large that most of them intern something new (arenas grow to tens of thousands of items,
        // far beyond any fixed number of chunks / any cap on a chunk size)
        let bulk = r.chance(1, 80);
        let len = if bulk {
            13_000 + r.below(27_000)
        } else {
            match r.below(4) {
                0 => 50 + r.below(150),
                1 => 200 + r.below(400),
                _ => 600 + r.below(1400),
            }
        } as usize;
        let dom = if bulk { 30_000 + r.below(40_000) as u32 } else { 20 + r.below(600) as u32 };
        let mut ops = vec![];
        let mut nvs = 0u32;
        for _ in 0..len {
            ops.push(match r.below(12) {
                0..=2 => Op::Str(r.below(dom as u64) as u32),
                3..=4 => Op::Name(r.below(dom as u64) as u32),
                5 => Op::LookupName(r.below(dom as u64 + 5) as u32),
                6..=7 => {
                    nvs += 1;
                    Op::Vs(r.below(dom as u64) as u32, r.below(dom as u64) as u32)
                }
                8..=10 => Op::Solvable(r.below(dom as u64) as u32, r.below(1000) as u32),
                _ => {
                    if nvs == 0 {
                        Op::Str(r.below(dom as u64) as u32)
                    } else {
                        Op::Union((0..1 + r.below(6)).map(|_| r.below(nvs as u64) as u32).collect())
                    }
                }
            });
        }
        C18Case { ops, revalidate_every: if bulk { 2_500 + r.below(2_000) as usize } else { 16 + r.below(100) as usize } }
    }
    fn check(&self, c: &C18Case, ctx: &mut Ctx) {
        use std::hash::{Hash, Hasher};
        let mut hh = std::collections::hash_map::DefaultHasher::new();
        format!("{:?}", c.ops).hash(&mut hh);
        let h = hh.finish();
        ctx.rep.distinct.insert(h);
        ctx.rep.evaluations += 1;
        let mut vio: Vec<(String, String)> = vec![];
        let mut stats = (0u64, 0u64, [0usize; 5]);
        // a third of the histories use a package name type whose Hash is coarser than its Eq
        let coarse = h % 3 == 0;
        if coarse {
            ctx.rep.count("histories-with-a-name-type-whose-hash-collides");
        }
        let r = catch(|| if coarse { run_history::<CoarseName>(c, &mut vio, &mut stats) } else { run_history::<String>(c, &mut vio, &mut stats) });
        match r {
            Caught::Ok(()) => {}
            Caught::Panic(pi) => ctx.violation(format!("panic in pool operation: {}", pi.signature()), String::new()),
            _ => ctx.violation("pool operation did not return", String::new()),
        }
        for (k, d) in vio {
            ctx.violation(k, d);
        }
        ctx.rep.add("operations", c.ops.len() as u64);
        ctx.rep.add("references-held", stats.0);
        ctx.rep.add("reference-revalidations", stats.1);
        let crossed: usize = stats.2.iter().map(|&n| n / 128).max().unwrap_or(0);
        ctx.rep.max("max-chunk-boundaries-crossed-in-one-arena", crossed as u64);
        if crossed >= 2 && stats.0 >= 100 {
            ctx.rep.nontrivial.insert(h);
        }
        ctx.rep.sample(|| json!({"operations": c.ops.len(), "first_ops": c.ops.iter().take(12).map(|o| format!("{:?}", o)).collect::<Vec<_>>(), "arena_sizes": stats.2}));
    }
}

/// Names interned as a side effect of other operations obey the same rules as `Op::Name`.
fn check_name<N: NameLike>(m: &mut HashMap<N, NameId>, ids: &mut std::collections::HashSet<u32>, s: N, id: NameId, bad: &mut impl FnMut(&str, String)) {
    match m.get(&s) {
        Some(&prev) => {
            if prev != id {
                bad("same package name interned twice got different ids", format!("{s:?}: {} then {}", prev.0, id.0));
            }
        }
        None => {
            if !ids.insert(id.0) {
                let o = m.iter().find(|(_, v)| **v == id).map(|(o, _)| format!("{o:?}")).unwrap_or_default();
                bad("different package names share an id", format!("{s:?} and {o} -> {}", id.0));
            }
            m.insert(s, id);
        }
    }
}

fn run_history<N: NameLike>(c: &C18Case, vio: &mut Vec<(String, String)>, stats: &mut (u64, u64, [usize; 5])) {
    let pool: Pool<Vs, N> = Pool::new();
    // model
    let mut m_str: HashMap<String, StringId> = HashMap::new();
    let mut m_name: HashMap<N, NameId> = HashMap::new();
    let mut m_vs: HashMap<(NameId, Vs), VersionSetId> = HashMap::new();
    // ids handed out so far (so that "two values share an id" is a constant-time question)
    let mut ids_str: std::collections::HashSet<u32> = Default::default();
    let mut ids_name: std::collections::HashSet<u32> = Default::default();
    let mut ids_vs: std::collections::HashSet<u32> = Default::default();
    let mut vs_list: Vec<VersionSetId> = vec![];
    let mut n_solv = 0u32;
    let mut n_union = 0u32;
    // held references with their expected contents
    let mut r_str: Vec<(&str, String)> = vec![];
    let mut r_name: Vec<(&N, N)> = vec![];
    let mut r_vs: Vec<(&Vs, Vs)> = vec![];
    let mut r_solv: Vec<(&resolvo::utils::Pool<Vs, N>, SolvableId, NameId, Rec)> = vec![];
    let mut r_solv_ref: Vec<(&Rec, Rec)> = vec![];
    // where each value lived when it was first resolved: resolving the same id again must give the
    // same address for as long as the pool lives (checked without touching the old reference)
    let mut a_name: Vec<(NameId, usize)> = vec![];
    let mut a_vs: Vec<(VersionSetId, usize)> = vec![];
    let mut a_solv: Vec<(SolvableId, usize)> = vec![];
    let mut moved = false;
    let mut bad = |k: &str, d: String| {
        if vio.len() < 20 {
            vio.push((k.to_string(), d))
        }
    };
    macro_rules! revalidate {
        () => {
            for &(id, addr) in &a_name {
                stats.1 += 1;
                if pool.resolve_package_name(id) as *const N as usize != addr {
                    moved = true;
                    bad("an interned package name moved in memory after later insertions (references to it dangle)", format!("name id {}", id.0));
                    break;
                }
            }
            for &(id, addr) in &a_vs {
                stats.1 += 1;
                if pool.resolve_version_set(id) as *const Vs as usize != addr {
                    moved = true;
                    bad("an interned version set moved in memory after later insertions (references to it dangle)", format!("version set id {}", id.0));
                    break;
                }
            }
            for &(id, addr) in &a_solv {
                stats.1 += 1;
                if &pool.resolve_solvable(id).record as *const Rec as usize != addr {
                    moved = true;
                    bad("an interned solvable moved in memory after later insertions (references to it dangle)", format!("solvable id {}", id.0));
                    break;
                }
            }
            // the old references are only read while nothing is known to have moved
            if !moved {
            for (r, e) in &r_str {
                stats.1 += 1;
                if *r != e.as_str() {
                    bad("held &str changed after later insertions", format!("expected {e:?} got {r:?}"));
                }
            }
            for (r, e) in &r_name {
                stats.1 += 1;
                if *r != e {
                    bad("held package name reference changed after later insertions", format!("expected {e:?} got {r:?}"));
                }
            }
            for (r, e) in &r_vs {
                stats.1 += 1;
                if *r != e {
                    bad("held version set reference changed after later insertions", format!("expected {e:?} got {r:?}"));
                }
            }
            for (r, e) in &r_solv_ref {
                stats.1 += 1;
                if *r != e {
                    bad("held solvable record reference changed after later insertions", format!("expected {e:?} got {r:?}"));
                }
            }
            }
        };
    }
    for (i, op) in c.ops.iter().enumerate() {
        match op {
            Op::Str(k) => {
                let s = string_of(*k);
                let id = if i % 2 == 0 { pool.intern_string(s.clone()) } else { pool.intern_string(s.as_str()) };
                match m_str.get(&s) {
                    Some(&prev) => {
                        if prev != id {
                            bad("same string interned twice got different ids", format!("{s:?}: {:?} then {:?}", prev.0, id.0));
                        }
                    }
                    None => {
                        if !ids_str.insert(id.0) {
                            let o = m_str.iter().find(|(_, v)| **v == id).map(|(o, _)| o.clone()).unwrap_or_default();
                            bad("different strings share an id", format!("{s:?} and {o:?} -> {}", id.0));
                        }
                        m_str.insert(s.clone(), id);
                    }
                }
                let r = pool.resolve_string(id);
                if r != s {
                    bad("resolve_string returns something else than was interned", format!("{s:?} -> {r:?}"));
                }
                r_str.push((r, s));
            }
            Op::Name(k) => {
                let s = N::make(name_of(*k));
                let id = pool.intern_package_name(s.clone());
                match m_name.get(&s) {
                    Some(&prev) => {
                        if prev != id {
                            bad("same package name interned twice got different ids", format!("{s:?}: {} then {}", prev.0, id.0));
                        }
                    }
                    None => {
                        if !ids_name.insert(id.0) {
                            let o = m_name.iter().find(|(_, v)| **v == id).map(|(o, _)| format!("{o:?}")).unwrap_or_default();
                            bad("different package names share an id", format!("{s:?} and {o} -> {}", id.0));
                        }
                        m_name.insert(s.clone(), id);
                    }
                }
                let r = pool.resolve_package_name(id);
                if *r != s {
                    bad("resolve_package_name returns something else than was interned", format!("{s:?} -> {r:?}"));
                }
                a_name.push((id, r as *const N as usize));
                r_name.push((r, s));
            }
            Op::LookupName(k) => {
                let s = N::make(name_of(*k));
                let got = pool.lookup_package_name(&s);
                if got != m_name.get(&s).copied() {
                    bad("lookup_package_name disagrees with what was interned", format!("{s:?}: {:?} vs {:?}", got.map(|n| n.0), m_name.get(&s).map(|n| n.0)));
                }
            }
            Op::Vs(nk, vk) => {
                let name = pool.intern_package_name(N::make(name_of(*nk)));
                check_name(&mut m_name, &mut ids_name, N::make(name_of(*nk)), name, &mut bad);
                let vs = vs_of(*vk);
                let id = pool.intern_version_set(name, vs.clone());
                match m_vs.get(&(name, vs.clone())) {
                    Some(&prev) => {
                        if prev != id {
                            bad("same version set interned twice got different ids", format!("{:?}: {} then {}", vs.label, prev.0, id.0));
                        }
                    }
                    None => {
                        if !ids_vs.insert(id.0) {
                            bad("different version sets share an id", format!("{:?} -> {}", vs.label, id.0));
                        }
                        m_vs.insert((name, vs.clone()), id);
                    }
                }
                vs_list.push(id);
                let r = pool.resolve_version_set(id);
                if *r != vs || pool.resolve_version_set_package_name(id) != name {
                    bad("resolve_version_set returns something else than was interned", format!("{:?}", vs.label));
                }
                a_vs.push((id, r as *const Vs as usize));
                r_vs.push((r, vs));
            }
            Op::Solvable(nk, rec) => {
                let name = pool.intern_package_name(N::make(name_of(*nk)));
                check_name(&mut m_name, &mut ids_name, N::make(name_of(*nk)), name, &mut bad);
                let record = Rec(*rec, format!("record-{rec}-{}", "r".repeat((*rec % 29) as usize)));
                let id = pool.intern_solvable(name, record.clone());
                if id.0 != n_solv {
                    bad("solvable ids are not dense / unique", format!("expected {} got {}", n_solv, id.0));
                }
                n_solv += 1;
                let s = pool.resolve_solvable(id);
                if s.name != name || s.record != record {
                    bad("resolve_solvable returns something else than was interned", format!("id {}", id.0));
                }
                a_solv.push((id, &s.record as *const Rec as usize));
                r_solv_ref.push((&s.record, record.clone()));
                r_solv.push((&pool, id, name, record));
            }
            Op::Union(idx) => {
                if vs_list.is_empty() {
                    continue;
                }
                let members: Vec<VersionSetId> = idx.iter().map(|&i| vs_list[i as usize % vs_list.len()]).collect();
                // the remaining members arrive through iterators with different size hints
                let rest: Vec<VersionSetId> = members[1..].to_vec();
                // one union in five is interned through an iterator that RE-ENTERS the pool while it is
                // being consumed: it interns another union (the reversed member list), a string and a
                // version set of its own before handing out its first item
                let nested: std::cell::Cell<Option<VersionSetUnionId>> = std::cell::Cell::new(None);
                let id: VersionSetUnionId = match (idx.iter().sum::<u32>() as usize + i) % 5 {
                    4 => {
                        let mut it = rest.clone().into_iter();
                        let (pool_ref, nested_ref) = (&pool, &nested);
                        let mut rev = members.clone();
                        rev.reverse();
                        pool.intern_version_set_union(
                            members[0],
                            std::iter::from_fn(|| {
                                if nested_ref.get().is_none() {
                                    let _ = pool_ref.intern_string("interned while a union was being built");
                                    nested_ref.set(Some(pool_ref.intern_version_set_union(rev[0], rev[1..].iter().copied())));
                                }
                                it.next()
                            }),
                        )
                    }
                    0 => pool.intern_version_set_union(members[0], rest.iter().copied()),
                    1 => {
                        // (0, None)
                        let mut it = rest.clone().into_iter();
                        pool.intern_version_set_union(members[0], std::iter::from_fn(move || it.next()))
                    }
                    2 => {
                        // flattened groups: (0, None) as well
                        let groups: Vec<Vec<VersionSetId>> = rest.chunks(2).map(|c| c.to_vec()).collect();
                        pool.intern_version_set_union(members[0], groups.into_iter().flat_map(|g| g.into_iter()))
                    }
                    _ => pool.intern_version_set_union(members[0], rest.iter().copied().filter(|_| true)), // (0, Some(n))
                };
                if let Some(nid) = nested.get() {
                    // two unions were created by this operation: together they take the next two ids
                    let mut got2 = [nid.0, id.0];
                    got2.sort();
                    if got2 != [n_union, n_union + 1] {
                        bad("union ids are not dense / unique", format!("expected {} and {} got {:?}", n_union, n_union + 1, got2));
                    }
                    n_union += 2;
                    let mut rev = members.clone();
                    rev.reverse();
                    let gotn: Vec<VersionSetId> = pool.resolve_version_set_union(nid).collect();
                    if gotn != rev {
                        bad("resolve_version_set_union returns something else than was interned", format!("union interned from inside the iterator of another: {:?} vs {:?}", gotn.iter().map(|v| v.0).collect::<Vec<_>>(), rev.iter().map(|v| v.0).collect::<Vec<_>>()));
                    }
                } else {
                    if id.0 != n_union {
                        bad("union ids are not dense / unique", format!("expected {} got {}", n_union, id.0));
                    }
                    n_union += 1;
                }
                let got: Vec<VersionSetId> = pool.resolve_version_set_union(id).collect();
                if got != members {
                    bad("resolve_version_set_union returns something else than was interned", format!("{:?} vs {:?}", got.iter().map(|v| v.0).collect::<Vec<_>>(), members.iter().map(|v| v.0).collect::<Vec<_>>()));
                }
            }
        }
        if i % c.revalidate_every == 0 {
            revalidate!();
        }
    }
    revalidate!();
    // re-resolve every solvable by id at the end
    for (p, id, name, rec) in &r_solv {
        let s = p.resolve_solvable(*id);
        if s.name != *name || s.record != *rec {
            bad("resolve_solvable changed its answer after later insertions", format!("id {}", id.0));
        }
    }
    stats.0 = (r_str.len() + r_name.len() + r_vs.len() + r_solv_ref.len()) as u64;
    stats.2 = [m_str.len(), m_name.len(), m_vs.len(), n_solv as usize, n_union as usize];
}
