//! C08 — direct requirements get their best candidate whenever that is possible.
use std::{collections::BTreeSet, rc::Rc};

use serde_json::json;

use super::*;
use crate::{
    campaign::Monitor,
    gener,
    reference::{Exists, Ref},
    report::{Ctx, Tier},
    run::{Outcome, solve_once},
};

pub struct C08;

pub const FAMILIES: &[(&str, u64)] = &[("conf", 5), ("conf-hints", 2), ("deep", 5), ("deep-hints", 2), ("medium", 3), ("tiny", 1), ("lazy", 1)];

impl Monitor for C08 {
    type Case = SolverCase;
    fn id(&self) -> &'static str {
        "C08"
    }
    fn rule(&self) -> String {
        "cases = seeded universes with conflicts below the direct requirements (constrains-heavy and layered families; a twelfth from the `conflict-chain` family whose solves go through up to ~100 learnt conflicts before the decisive one), root requirements restricted to single version sets, random activity parameters (so that the VSIDS-like ordering is stressed), sync + async; applicable when a brute-force search finds a valid solution containing the first-ranked candidate of every root requirement simultaneously; then the returned solution must contain all of them. distinct = content hash; non-trivial = distinct applicable case whose search had >= 1 conflict".into()
    }
    fn cases(&self, tier: Tier) -> u64 {
        tier.pick(320_000, 6_400_000)
    }
    fn floor(&self, tier: Tier) -> u64 {
        tier.pick(1_200, 12_000)
    }
    fn generate(&self, r: &mut Rng, _tier: Tier, _i: u64) -> SolverCase {
        let (name, mut cfg) = pick_family(r, FAMILIES);
        cfg.maxroot = 3;
        let (name, (u, mut p)) = if r.chance(1, 12) { ("conflict-chain", gener::conflict_chain(r)) } else { (name, gener::generate(r, &cfg)) };
        p = p.hard();
        // most cases: only single version set root requirements; a sixth of the cases keeps root
        // unions next to them; those are outside the quantifier and only counted
        if !r.chance(1, 6) {
            p.reqs.retain(|r| matches!(r, Req::Single(_)));
        }
        let mut runs = standard_runs(r, 1);
        for o in &mut runs {
            if r.chance(2, 3) {
                o.activity = Some(gener::activity_params(r));
            }
        }
        SolverCase { family: name.into(), u, p, runs }
    }
    fn check(&self, c: &SolverCase, ctx: &mut Ctx) {
        if c.p.reqs.is_empty() {
            return;
        }
        let u = Rc::new(c.u.clone());
        let rf = Ref::new(&u);
        let h = u.content_hash(&c.p);
        ctx.rep.distinct.insert(h);
        ctx.rep.count(&format!("family:{}", c.family));
        let singles: Vec<Req> = c.p.reqs.iter().copied().filter(|r| matches!(r, Req::Single(_))).collect();
        if singles.is_empty() {
            return;
        }
        let has_union = singles.len() != c.p.reqs.len();
        let firsts: Vec<u32> = singles.iter().filter_map(|&r| rf.sorted_req(r).first().copied()).collect();
        if firsts.len() != singles.len() {
            ctx.rep.count("not-applicable:requirement-without-candidates");
            return;
        }
        match rf.exists(&c.p, &firsts, super::c02::EXISTS_BUDGET) {
            Exists::Sat(_) => {}
            Exists::Unsat => {
                ctx.rep.count("not-applicable:best-candidates-not-jointly-installable");
                return;
            }
            Exists::Unknown => {
                ctx.rep.inconclusive("brute force budget exceeded");
                return;
            }
        }
        ctx.rep.count("applicable");
        for (k, opts) in c.runs.iter().enumerate() {
            ctx.rep.evaluations += 1;
            let (sess, out) = solve_once(&u, &c.p, opts);
            note_outcome(ctx.rep, &out);
            match &out {
                Outcome::Ok(sol) => {
                    let set: BTreeSet<u32> = sol.iter().copied().collect();
                    let missing: Vec<String> = firsts.iter().filter(|s| !set.contains(s)).map(|&s| u.solv_label(s)).collect();
                    if !missing.is_empty() && has_union {
                        // outside the property's quantifier ("problems whose root requirements are
                        // single version sets"): the solver decides a root union like any other
                        // root requirement, and its choice can downgrade a single one. Counted, not judged.
                        ctx.rep.count("observation:downgraded-next-to-a-root-union (outside the quantifier, not judged)");
                    } else if !missing.is_empty() {
                        ctx.violation("direct-requirement-downgraded", format!("run {k} ({:?}, activity {:?}): best candidates {:?} missing from {:?}", opts.mode, opts.activity, missing, sol.iter().map(|&s| u.solv_label(s)).collect::<Vec<_>>()));
                    }
                    let hs = hook_stats(&sess);
                    ctx.rep.max("max-conflicts-in-one-solve", hs.conflicts as u64);
                    if hs.conflicts >= 30 {
                        ctx.rep.count("applicable-with->=30-conflicts");
                    }
                    if hs.conflicts >= 1 {
                        ctx.rep.nontrivial.insert(h);
                        ctx.rep.count("applicable-with-conflict");
                        if k == 0 {
                            ctx.rep.sample(|| json!({"universe": universe_text(&u), "problem": problem_text(&u, &c.p), "best": firsts.iter().map(|&s| u.solv_label(s)).collect::<Vec<_>>(), "conflicts": hs.conflicts}));
                        }
                    }
                }
                Outcome::Unsat(_) => ctx.violation("unsolvable-although-solution-with-best-candidates-exists", format!("run {k}")),
                _ => ctx.rep.count("not-a-verdict (see C04/C10)"),
            }
        }
    }
}
