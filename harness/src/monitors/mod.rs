//! One module per property: the oracle over results / logs / hooked state.
pub mod c01;
pub mod c02;
pub mod c03;
pub mod c04;
pub mod c05;
pub mod c06;
pub mod c07;
pub mod c08;
pub mod c09;
pub mod c10;
pub mod c11;
pub mod c12;
pub mod c13;
pub mod c14;
pub mod c15;
pub mod c16;
pub mod c17;
pub mod c18;
pub mod c19;
pub mod c20;

use serde::{Deserialize, Serialize};
use serde_json::{Value, json};

use crate::{
    gener::{GenCfg, Rng, activity_params},
    report::Report,
    run::{Mode, Outcome, Session, SolveOpts},
    sched::Policy,
    universe::*,
};

/// A universe, a problem and the ways to run it.
#[derive(Clone, Debug, Serialize, Deserialize)]
pub struct SolverCase {
    pub family: String,
    pub u: Universe,
    pub p: Prob,
    pub runs: Vec<SolveOpts>,
}

pub fn random_policy(r: &mut Rng) -> Policy {
    match r.below(8) {
        0 => Policy::Oldest,
        1 => Policy::Newest,
        2 => Policy::CandsFirst,
        3 => Policy::DepsFirst,
        _ => Policy::Random(r.next()),
    }
}

pub fn random_pause_mask(r: &mut Rng) -> u8 {
    match r.below(4) {
        0 => PAUSE_ALL,
        1 => PAUSE_CANDS,
        2 => PAUSE_CANDS | PAUSE_DEPS | PAUSE_SORT,
        _ => PAUSE_CANDS | PAUSE_DEPS,
    }
}

pub fn async_opts(r: &mut Rng) -> SolveOpts {
    SolveOpts {
        mode: Mode::Async(random_policy(r)),
        pause_mask: random_pause_mask(r),
        ..SolveOpts::default()
    }
}

/// sync run + `n_async` async runs, random activity parameters on some of them
pub fn standard_runs(r: &mut Rng, n_async: usize) -> Vec<SolveOpts> {
    let mut runs = vec![SolveOpts::default()];
    if r.chance(1, 3) {
        runs[0].activity = Some(activity_params(r));
    }
    for _ in 0..n_async {
        let mut o = async_opts(r);
        if r.chance(1, 4) {
            o.activity = Some(activity_params(r));
        }
        runs.push(o);
    }
    runs
}

/// Pick a generator family by weight.
pub fn pick_family(r: &mut Rng, fams: &[(&'static str, u64)]) -> (&'static str, GenCfg) {
    // under slow interpreters only the small families are used
    let small: Vec<(&'static str, u64)> = fams.iter().copied().filter(|f| f.0.starts_with("tiny") || f.0 == "hostile").collect();
    let fams: &[(&'static str, u64)] = if crate::report::small() && !small.is_empty() { &small } else { fams };
    let total: u64 = fams.iter().map(|f| f.1).sum();
    let mut x = r.below(total);
    let mut name = fams[0].0;
    for &(n, w) in fams {
        if x < w {
            name = n;
            break;
        }
        x -= w;
    }
    (name, family(name))
}

pub fn family(name: &str) -> GenCfg {
    match name {
        "tiny" => GenCfg::tiny(),
        "tiny-hints" => GenCfg::tiny().with_hints(1),
        "tiny-soft" => GenCfg::tiny().with_soft(3),
        "tiny-hints-soft" => GenCfg::tiny().with_hints(1).with_soft(3),
        "medium" => GenCfg::medium(),
        "medium-hints" => GenCfg::medium().with_hints(1),
        "conf" => GenCfg::conf(),
        "conf-hints" => GenCfg::conf().with_hints(1),
        "conf-soft" => GenCfg::conf().with_soft(3),
        "deep" => GenCfg::deep(),
        "deep-hints" => GenCfg::deep().with_hints(1),
        "lazy" => GenCfg::lazy(),
        "lazy-hints" => GenCfg::lazy().with_hints(1),
        "hostile" => GenCfg::hostile(),
        "hostile-hard" => GenCfg { nsoft: 0, ..GenCfg::hostile() },
        "lazy-soft" => GenCfg::lazy().with_soft(4),
        "medium-soft" => GenCfg::medium().with_soft(4),
        "wide" => GenCfg { npkg: 9, maxver: 9, maxreq: 4, p_con: 60, p_union: 15, p_unknown: 2, p_excl: 5, p_lock: 0, p_fav: 5, p_missing: 5, p_rootcon: 30, maxroot: 4, ..GenCfg::tiny() },
        "cyclic" => GenCfg::tiny(),
        "big" => GenCfg { npkg: 20, maxver: 8, maxreq: 3, p_con: 70, p_missing: 2, layered: true, ..GenCfg::conf() },
        // few packages with MANY candidates each (more than any small-slice special case of a
        // sorting routine, several at-most-one helper bits, version sets matching 20+ candidates)
        "many" => GenCfg { npkg: 3, maxver: 48, maxreq: 2, p_con: 25, p_union: 15, p_unknown: 1, p_excl: 5, p_lock: 3, p_fav: 60, p_missing: 3, p_rootcon: 20, p_rank: 60, p_extset: 25, ..GenCfg::tiny() },
        "many-hints" => GenCfg { hints: 1, ..family("many") },
        // many candidates, most of them excluded or with unknown dependencies: far more than 64
        // negative assertions in one solve, requirements whose candidate lists are mostly ruled out
        // at level 1 before they are encoded
        // union-heavy and constrains-heavy: most requirements are unions over different packages,
        // decided members get abandoned and other members become true later
        "union-conf" => GenCfg { npkg: 9, maxver: 3, maxreq: 4, p_union: 65, p_con: 75, p_missing: 0, p_unknown: 1, p_excl: 2, p_lock: 1, ..GenCfg::conf() },
        "union-conf-hints" => GenCfg { hints: 1, ..family("union-conf") },
        // hundreds of packages (layered, so that searches stay tractable)
        "huge" => GenCfg { npkg: 160, maxver: 3, maxreq: 3, p_con: 50, p_missing: 2, p_union: 10, maxroot: 6, layered: true, ..GenCfg::conf() },
        "huge-hints" => GenCfg { hints: 1, ..family("huge") },
        // solvables with dozens of requirements and constrains each
        "hub" => GenCfg { npkg: 40, maxver: 3, maxreq: 45, p_con: 60, p_union: 10, p_missing: 3, layered: true, ..GenCfg::conf() },
        "hub-hints" => GenCfg { hints: 1, ..family("hub") },
        // long soft-requirement lists (up to 200 entries: duplicates, other versions of listed
        // packages, excluded / locked-out / unknown-dependency solvables among them)
        "many-soft" => GenCfg { npkg: 14, maxver: 6, ..GenCfg::medium().with_soft(200) },
        "many-soft-hints" => GenCfg { hints: 1, ..family("many-soft") },
        // few packages with many candidates AND a long soft list (dozens of directly requested
        // versions of the same few packages: at-most-one registration of soft solvables at scale)
        "many-cand-soft" => GenCfg { nsoft: 120, p_softbias: 20, ..family("many") },
        "many-cand-soft-hints" => GenCfg { hints: 1, ..family("many-cand-soft") },
        "many-excl" => GenCfg { npkg: 4, maxver: 80, p_exclmany: 70, p_unknown: 12, p_lock: 15, p_con: 35, ..family("many") },
        "many-excl-hints" => GenCfg { hints: 1, ..family("many-excl") },
        other => panic!("unknown family {other}"),
    }
}

/// Summary of a case for evidence samples.
pub fn case_summary(c: &SolverCase) -> Value {
    json!({
        "family": c.family,
        "universe": universe_text(&c.u),
        "problem": problem_text(&c.u, &c.p),
        "runs": c.runs.iter().map(|r| format!("{:?}", r.mode)).collect::<Vec<_>>(),
    })
}
/// Compact human readable rendering of a universe (for samples and replay output).
pub fn universe_text(u: &Universe) -> Vec<String> {
    let mut out = vec![];
    let req_text = |r: &Req| match r {
        Req::Single(v) => vs_text(u, *v),
        Req::Union(un) => u.unions[*un as usize].iter().map(|&v| vs_text(u, v)).collect::<Vec<_>>().join(" | "),
    };
    for p in &u.pkgs {
        let mut line = format!("{}:", p.name);
        match &p.candidates {
            None => line.push_str(" <no candidates>"),
            Some(c) => {
                for &s in c {
                    let sv = &u.solvs[s as usize];
                    line.push_str(&format!(" {}", sv.ver));
                    match &sv.deps {
                        Deps::Unknown(_) => line.push_str("[unknown deps]"),
                        Deps::Known { reqs, cons } => {
                            if !reqs.is_empty() || !cons.is_empty() {
                                line.push('[');
                                line.push_str(&reqs.iter().map(&req_text).collect::<Vec<_>>().join(", "));
                                if !cons.is_empty() {
                                    line.push_str("; constrains ");
                                    line.push_str(&cons.iter().map(|&v| vs_text(u, v)).collect::<Vec<_>>().join(", "));
                                }
                                line.push(']');
                            }
                        }
                    }
                }
            }
        }
        if let Some(f) = p.favored {
            line.push_str(&format!(" favored={}", u.solvs[f as usize].ver));
        }
        if let Some(f) = p.locked {
            line.push_str(&format!(" locked={}", u.solvs[f as usize].ver));
        }
        if !p.excluded.is_empty() {
            line.push_str(&format!(" excluded={:?}", p.excluded.iter().map(|&(s, _)| u.solvs[s as usize].ver).collect::<Vec<_>>()));
        }
        if p.hint != Hint::None {
            line.push_str(&format!(" hint={:?}", p.hint));
        }
        out.push(line);
    }
    out
}

pub fn vs_text(u: &Universe, v: u32) -> String {
    let vs = &u.vsets[v as usize];
    format!("{} {}", u.pkgs[vs.name as usize].name, vs.label)
}

pub fn problem_text(u: &Universe, p: &Prob) -> String {
    let req_text = |r: &Req| match r {
        Req::Single(v) => vs_text(u, *v),
        Req::Union(un) => u.unions[*un as usize].iter().map(|&v| vs_text(u, v)).collect::<Vec<_>>().join(" | "),
    };
    format!(
        "require [{}] constrain [{}] soft [{}]",
        p.reqs.iter().map(req_text).collect::<Vec<_>>().join(", "),
        p.cons.iter().map(|&v| vs_text(u, v)).collect::<Vec<_>>().join(", "),
        p.soft.iter().map(|&s| u.solv_label(s)).collect::<Vec<_>>().join(", "),
    )
}

/// Feature counters of a universe/problem (for coverage in evidence).
pub fn count_features(u: &Universe, p: &Prob, rep: &mut Report) -> u32 {
    let mut n = 0;
    let mut f = |name: &str, present: bool, rep: &mut Report| {
        if present {
            rep.count(&format!("feature:{name}"));
            n += 1;
        }
    };
    f("hints", u.pkgs.iter().any(|p| p.hint != Hint::None), rep);
    f("exclusions", u.pkgs.iter().any(|p| !p.excluded.is_empty()), rep);
    f("locks", u.pkgs.iter().any(|p| p.locked.is_some()), rep);
    f("favored", u.pkgs.iter().any(|p| p.favored.is_some()), rep);
    f("missing-package", u.pkgs.iter().any(|p| p.candidates.is_none()), rep);
    f("unknown-deps", u.solvs.iter().any(|s| matches!(s.deps, Deps::Unknown(_))), rep);
    f("unions", !u.unions.is_empty(), rep);
    f("soft", !p.soft.is_empty(), rep);
    f("root-constraints", !p.cons.is_empty(), rep);
    if u.union_iter != 0 {
        rep.count("provider-union-iterator-without-size-hint");
    }
    if u.filter_order != 0 {
        rep.count("provider-filter-answers-in-its-own-order");
    }
    let self_ref = u.solvs.iter().any(|s| match &s.deps {
        Deps::Known { reqs, cons } => {
            reqs.iter().any(|r| match r {
                Req::Single(v) => u.vsets[*v as usize].name == s.name,
                Req::Union(un) => u.unions[*un as usize].iter().any(|&v| u.vsets[v as usize].name == s.name),
            }) || cons.iter().any(|&v| u.vsets[v as usize].name == s.name)
        }
        _ => false,
    });
    f("self-reference", self_ref, rep);
    n
}

/// Counters taken from the hook after a solve.
pub struct HookStats {
    pub learnt: u32,
    pub conflicts: u32,
    pub restarts: u32,
    pub max_backjump: u32,
}

pub fn hook_stats(s: &Session) -> HookStats {
    let c = s.solver.verif_counters();
    HookStats { learnt: c.conflicts, conflicts: c.conflicts, restarts: c.restarts, max_backjump: c.max_backjump }
}

pub fn note_outcome(rep: &mut Report, o: &Outcome) {
    rep.count(&format!("outcome:{}", o.tag()));
}
