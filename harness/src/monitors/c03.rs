//! C03 — a conflict report is a truthful, self-contained proof of unsatisfiability.
use std::{
    collections::{BTreeMap, BTreeSet},
    rc::Rc,
};

use petgraph::visit::EdgeRef;
use resolvo::conflict::{ConflictCause, ConflictEdge, ConflictGraph, ConflictNode};
use serde_json::json;

use super::*;
use crate::{
    campaign::Monitor,
    gener,
    reference::Ref,
    report::{Ctx, Tier},
    run::{Caught, Outcome, solve_once},
};

pub struct C03;

pub const FAMILIES: &[(&str, u64)] = &[
    ("tiny", 2),
    ("tiny-hints", 2),
    ("medium", 2),
    ("medium-hints", 1),
    ("conf", 5),
    ("conf-hints", 4),
    ("deep", 4),
    ("deep-hints", 3),
    ("hostile-hard", 2),
    ("big", 1),
    ("many", 1),
    ("many-hints", 1),
    ("many-excl", 2),
    ("many-excl-hints", 1),
    ("union-conf", 2),
    ("union-conf-hints", 2),
];

pub struct GraphFacts {
    pub violations: Vec<(String, String)>,
    pub nodes: usize,
    pub edges: usize,
    /// None = SAT check inconclusive (budget)
    pub proof_ok: Option<bool>,
}

/// DPLL over small clause sets with a step budget. Some(true) = satisfiable.
fn dpll(nvars: usize, clauses: &[Vec<(usize, bool)>], budget: &mut u64) -> Option<bool> {
    fn go(val: &mut Vec<Option<bool>>, clauses: &[Vec<(usize, bool)>], budget: &mut u64) -> Option<bool> {
        if *budget == 0 {
            return None;
        }
        *budget -= 1;
        // unit propagation
        let mut trail = vec![];
        loop {
            let mut changed = false;
            for cl in clauses {
                let mut sat = false;
                let mut un = None;
                let mut n_un = 0;
                for &(v, s) in cl {
                    match val[v] {
                        Some(b) if b == s => {
                            sat = true;
                            break;
                        }
                        Some(_) => {}
                        None => {
                            n_un += 1;
                            un = Some((v, s));
                        }
                    }
                }
                if sat {
                    continue;
                }
                if n_un == 0 {
                    for v in trail {
                        val[v] = None;
                    }
                    return Some(false);
                }
                if n_un == 1 {
                    let (v, s) = un.unwrap();
                    val[v] = Some(s);
                    trail.push(v);
                    changed = true;
                }
            }
            if !changed {
                break;
            }
        }
        let Some(v) = (0..val.len()).find(|&v| val[v].is_none()) else {
            for v in trail {
                val[v] = None;
            }
            return Some(true);
        };
        for b in [false, true] {
            val[v] = Some(b);
            match go(val, clauses, budget) {
                Some(false) => {}
                other => {
                    val[v] = None;
                    for v in trail {
                        val[v] = None;
                    }
                    return other;
                }
            }
        }
        val[v] = None;
        for v in trail {
            val[v] = None;
        }
        Some(false)
    }
    let mut val = vec![None; nvars];
    go(&mut val, clauses, budget)
}

/// Check every edge against the provider's data and check that the facts shown are unsatisfiable.
pub fn check_graph(u: &Universe, p: &Prob, g: &ConflictGraph) -> GraphFacts {
    let rf = Ref::new(u);
    let mut out: Vec<(String, String)> = vec![];
    let mut bad = |k: &str, d: String| out.push((k.to_string(), d));
    let gr = &g.graph;
    // Some(None) = root, Some(Some(s)) = solvable
    let node_s = |nx: petgraph::graph::NodeIndex| match gr[nx] {
        ConflictNode::Solvable(s) => Some(s.solvable().map(|x| x.0)),
        _ => None,
    };
    let reqs_of = |s: Option<u32>| -> (Vec<Req>, Vec<u32>) {
        match s {
            None => (p.reqs.clone(), p.cons.clone()),
            Some(s) => match &u.solvs[s as usize].deps {
                Deps::Known { reqs, cons } => (reqs.clone(), cons.clone()),
                Deps::Unknown(_) => (vec![], vec![]),
            },
        }
    };
    if !matches!(node_s(g.root_node), Some(None)) {
        bad("root-node-not-root", "root_node is not the root solvable".into());
    }
    // reachability
    let mut seen = BTreeSet::new();
    let mut st = vec![g.root_node];
    while let Some(n) = st.pop() {
        if seen.insert(n) {
            for e in gr.edges(n) {
                st.push(e.target());
            }
        }
    }
    if seen.len() != gr.node_count() {
        bad("unreachable-node", format!("{} of {} nodes reachable from the root", seen.len(), gr.node_count()));
    }
    let mut clauses: Vec<Vec<(usize, bool)>> = vec![vec![(g.root_node.index(), true)]];
    // union-find over forbid edges: at-most-one applies to each connected group
    let mut forbid_groups: Vec<BTreeSet<usize>> = vec![];
    for nx in gr.node_indices() {
        let Some(src) = node_s(nx) else {
            if gr.edges(nx).next().is_some() {
                bad("edge-from-non-solvable", "unresolved/excluded node has outgoing edges".into());
            }
            continue;
        };
        let (reqs, cons) = reqs_of(src);
        let mut groups: BTreeMap<Req, BTreeSet<petgraph::graph::NodeIndex>> = BTreeMap::new();
        for e in gr.edges(nx) {
            match e.weight() {
                ConflictEdge::Requires(r) => {
                    groups.entry(from_req(*r)).or_default().insert(e.target());
                }
                ConflictEdge::Conflict(ConflictCause::Constrains(v)) => {
                    let Some(Some(t)) = node_s(e.target()) else {
                        bad("constrains-edge-target", "constrains edge to a non-solvable node".into());
                        continue;
                    };
                    if !cons.contains(&v.0) {
                        bad("constrains-edge-not-a-constrains-entry", format!("vs{} is not a constrains entry of {:?}", v.0, src));
                    }
                    if !rf.noncands_vs(v.0).contains(&t) {
                        bad("constrains-edge-target-matches", format!("s{t} is not a non-matching candidate of vs{}", v.0));
                    }
                    clauses.push(vec![(nx.index(), false), (e.target().index(), false)]);
                }
                ConflictEdge::Conflict(ConflictCause::Locked(l)) => {
                    let Some(Some(t)) = node_s(e.target()) else {
                        bad("lock-edge-target", "lock edge to a non-solvable node".into());
                        continue;
                    };
                    // (where a lock edge starts is not part of the statement; the fact is about its target)
                    let n = u.solvs[t as usize].name;
                    if u.pkgs[n as usize].locked != Some(l.0) || t == l.0 || !rf.locked_out(t) {
                        bad("lock-edge-untrue", format!("s{t} is not locked out by s{}", l.0));
                    }
                    clauses.push(vec![(e.target().index(), false)]);
                }
                ConflictEdge::Conflict(ConflictCause::Excluded) => {
                    let ConflictNode::Excluded(reason) = gr[e.target()] else {
                        bad("excluded-edge-target", "excluded edge to a non-excluded node".into());
                        continue;
                    };
                    let Some(s) = src else {
                        bad("excluded-edge-source", "excluded edge from the root".into());
                        continue;
                    };
                    let n = u.solvs[s as usize].name;
                    let by_pkg = u.pkgs[n as usize].excluded.iter().any(|&(e, r)| e == s && r == reason.0);
                    let by_unknown = matches!(u.solvs[s as usize].deps, Deps::Unknown(r) if r == reason.0);
                    if !by_pkg && !by_unknown {
                        bad("excluded-edge-untrue", format!("s{s} is not excluded for reason {}", reason.0));
                    }
                    clauses.push(vec![(nx.index(), false)]);
                }
                ConflictEdge::Conflict(ConflictCause::ForbidMultipleInstances) => {
                    let (Some(s), Some(Some(t))) = (src, node_s(e.target())) else {
                        bad("forbid-edge-endpoint", "forbid edge endpoint is not a solvable".into());
                        continue;
                    };
                    if u.solvs[s as usize].name != u.solvs[t as usize].name {
                        bad("forbid-edge-different-packages", format!("s{s} and s{t} belong to different packages"));
                    }
                    let (a, b) = (nx.index(), e.target().index());
                    let mut merged: BTreeSet<usize> = [a, b].into_iter().collect();
                    forbid_groups.retain(|gp| {
                        if gp.contains(&a) || gp.contains(&b) {
                            merged.extend(gp.iter().copied());
                            false
                        } else {
                            true
                        }
                    });
                    forbid_groups.push(merged);
                }
            }
        }
        for (r, targets) in groups {
            if !reqs.contains(&r) {
                bad("requires-edge-not-a-requirement", format!("{:?} is not a requirement of {:?}", r, src));
            }
            let cands: BTreeSet<u32> = rf.sorted_req(r).into_iter().collect();
            let tset: BTreeSet<Option<u32>> = targets.iter().map(|&t| node_s(t).flatten()).collect();
            if cands.is_empty() {
                if !(targets.len() == 1 && Some(*targets.iter().next().unwrap()) == g.unresolved_node) {
                    bad("requires-edge-should-be-unresolved", format!("{:?} has no candidates but does not point at the unresolved node", r));
                }
                clauses.push(vec![(nx.index(), false)]);
            } else {
                let expect: BTreeSet<Option<u32>> = cands.iter().map(|&c| Some(c)).collect();
                if tset != expect || targets.iter().any(|&t| Some(t) == g.unresolved_node || node_s(t).is_none()) {
                    bad("requires-edge-targets-differ-from-candidates", format!("targets {:?} != candidates {:?} of {:?}", tset, cands, r));
                }
                let mut cl = vec![(nx.index(), false)];
                cl.extend(targets.iter().map(|t| (t.index(), true)));
                clauses.push(cl);
            }
        }
    }
    for gp in &forbid_groups {
        let v: Vec<usize> = gp.iter().copied().collect();
        for i in 0..v.len() {
            for j in i + 1..v.len() {
                clauses.push(vec![(v[i], false), (v[j], false)]);
            }
        }
    }
    let nvars = gr.node_indices().map(|n| n.index() + 1).max().unwrap_or(0);
    let mut budget = 200_000u64;
    let proof_ok = dpll(nvars, &clauses, &mut budget).map(|sat| !sat);
    if proof_ok == Some(false) {
        bad("graph-facts-satisfiable", "the facts shown in the graph admit a selection that installs the root".into());
    }
    GraphFacts { violations: out, nodes: gr.node_count(), edges: gr.edge_count(), proof_ok }
}

impl Monitor for C03 {
    type Case = SolverCase;
    fn id(&self) -> &'static str {
        "C03"
    }
    fn rule(&self) -> String {
        "cases = seeded random universes biased to unsatisfiable, constrains-heavy, hinted and layered families, run synchronously and under an async schedule; for every Unsolvable result Conflict::graph is walked: each requires/constrains/lock/exclusion/forbid edge is compared with the provider's data (requirement belongs to source, targets == candidates or the unresolved node, ...), reachability from the root is recomputed, and exactly the facts shown (+ at-most-one per forbid-connected group) are handed to a DPLL which must find them unsatisfiable. distinct = content hash; non-trivial = distinct Unsolvable case whose search learnt >= 1 clause (hook counter), i.e. whose report went through learnt_why expansion".into()
    }
    fn cases(&self, tier: Tier) -> u64 {
        tier.pick(240_000, 4_800_000)
    }
    fn floor(&self, tier: Tier) -> u64 {
        tier.pick(1_200, 12_000)
    }
    fn generate(&self, r: &mut Rng, _tier: Tier, _i: u64) -> SolverCase {
        let (name, cfg) = pick_family(r, FAMILIES);
        let (u, p) = gener::generate(r, &cfg);
        let mut runs = vec![SolveOpts::default()];
        if r.chance(1, 2) {
            runs.push(async_opts(r));
        }
        if r.chance(1, 3) {
            runs[0].activity = Some(gener::activity_params(r));
        }
        SolverCase { family: name.into(), u, p: p.hard(), runs }
    }
    fn check(&self, c: &SolverCase, ctx: &mut Ctx) {
        let u = Rc::new(c.u.clone());
        let h = u.content_hash(&c.p);
        ctx.rep.distinct.insert(h);
        ctx.rep.count(&format!("family:{}", c.family));
        for (k, opts) in c.runs.iter().enumerate() {
            ctx.rep.evaluations += 1;
            let (sess, out) = solve_once(&u, &c.p, opts);
            note_outcome(ctx.rep, &out);
            let Outcome::Unsat(conflict) = &out else { continue };
            let hs = hook_stats(&sess);
            let g = match sess.graph(conflict) {
                Caught::Ok(g) => g,
                Caught::Panic(pi) => {
                    // `graph` asserts reachability itself
                    if pi.message.contains("assertion `left == right` failed") && pi.site.contains("conflict.rs") {
                        ctx.violation("unreachable-node (graph() assertion)", pi.signature());
                    } else {
                        ctx.rep.count("graph-panic (see C04)");
                    }
                    continue;
                }
                _ => continue,
            };
            let facts = check_graph(&u, &c.p, &g);
            ctx.rep.count("conflict-graphs-checked");
            ctx.rep.add("edges-checked", facts.edges as u64);
            ctx.rep.max("max-nodes", facts.nodes as u64);
            match facts.proof_ok {
                None => ctx.rep.inconclusive("DPLL budget exceeded on graph facts"),
                Some(_) => ctx.rep.count("graph-proofs-refuted-by-dpll"),
            }
            if hs.conflicts >= 1 {
                ctx.rep.nontrivial.insert(h);
                ctx.rep.count("conflicts-involving-learnt-clauses");
            }
            for (kind, detail) in facts.violations {
                ctx.violation(kind, format!("run {k}: {detail}"));
            }
            if k == 0 && hs.conflicts >= 1 {
                ctx.rep.sample(|| {
                    json!({"universe": universe_text(&u), "problem": problem_text(&u, &c.p),
                           "nodes": facts.nodes, "edges": facts.edges, "learnt": hs.conflicts,
                           "graphviz": match sess.graphviz(&g, false) { Caught::Ok(s) => s, _ => String::new() }})
                });
            }
        }
    }
}
