//! C13 — a solver can be reused: later solves are as correct as with a fresh solver.
use std::{collections::BTreeMap, rc::Rc};

use serde::{Deserialize, Serialize};
use serde_json::json;

use super::*;
use crate::{
    campaign::Monitor,
    gener,
    reference::Ref,
    report::{Ctx, Tier},
    run::{Outcome, Session, solve_once},
};

pub struct C13;

#[derive(Clone, Debug, Serialize, Deserialize)]
pub struct Step {
    /// index into `problems`
    pub problem: usize,
    pub cancel: Cancel,
}

#[derive(Clone, Debug, Serialize, Deserialize)]
pub struct C13Case {
    pub family: String,
    pub u: Universe,
    pub problems: Vec<Prob>,
    pub history: Vec<Step>,
    pub opts: SolveOpts,
}

pub const FAMILIES: &[(&str, u64)] = &[("tiny", 3), ("tiny-hints", 3), ("tiny-soft", 2), ("tiny-hints-soft", 2), ("medium", 2), ("medium-hints", 2), ("conf", 2), ("conf-hints", 2), ("hostile", 1), ("big", 1), ("many", 1), ("many-hints", 1), ("wide", 1), ("many-soft", 1), ("huge", 1), ("hub-hints", 1)];

impl Monitor for C13 {
    type Case = C13Case;
    fn id(&self) -> &'static str {
        "C13"
    }
    fn rule(&self) -> String {
        "cases = a universe, a pool of 4 problems over it and a history of 2-6 solve calls on ONE solver (same or different problems; calls may be cancelled at a random poll index, transiently or sticky-then-cleared, synchronously or under the manual executor so that cancellation happens while provider futures are parked). Model per call: a FRESH solver on the same problem. Oracle: the call terminates (no deadlock under the executor, no panic, step budget), gives the fresh solver's verdict, its solution is valid (reference + hook invariants), and no provider request that COMPLETED earlier in the solver's log (CandRet / DepsRet) is issued again. distinct = content hash of (universe, history); non-trivial = history containing a call cancelled while >= 1 provider future was parked, followed by a call that fetched or needed the interrupted package".into()
    }
    fn cases(&self, tier: Tier) -> u64 {
        tier.pick(160_000, 3_200_000)
    }
    fn floor(&self, tier: Tier) -> u64 {
        tier.pick(2_000, 20_000)
    }
    fn generate(&self, r: &mut Rng, _tier: Tier, _i: u64) -> C13Case {
        let (name, cfg) = pick_family(r, FAMILIES);
        let (u, p) = gener::generate(r, &cfg);
        let mut problems = vec![p.clone()];
        for _ in 0..3 {
            let mut q = Prob::default();
            if !u.vsets.is_empty() {
                for _ in 0..1 + r.below(2) {
                    q.reqs.push(Req::Single(r.below(u.vsets.len() as u64) as u32));
                }
                if r.chance(1, 4) {
                    q.cons.push(r.below(u.vsets.len() as u64) as u32);
                }
            }
            if (cfg.nsoft > 0 && r.chance(1, 2)) || r.chance(1, 6) {
                q.soft.push(r.below(u.solvs.len() as u64) as u32);
                if r.chance(1, 3) {
                    q.soft.push(r.below(u.solvs.len() as u64) as u32);
                }
            }
            problems.push(q);
        }
        // one history in forty is LONG: 20..80 calls on one solver over a pool of 8 problems
        let long = r.chance(1, 40) && !crate::report::small();
        if long {
            for _ in 0..4 {
                let mut q = Prob::default();
                if !u.vsets.is_empty() {
                    for _ in 0..1 + r.below(3) {
                        q.reqs.push(Req::Single(r.below(u.vsets.len() as u64) as u32));
                    }
                }
                if r.chance(1, 3) {
                    for _ in 0..r.below(6) {
                        q.soft.push(r.below(u.solvs.len() as u64) as u32);
                    }
                }
                problems.push(q);
            }
        }
        let len = if long { 20 + r.below(60) as usize } else { 2 + r.below(5) as usize };
        let mut history = vec![];
        for i in 0..len {
            let problem = if r.chance(1, if long { 6 } else { 2 }) { 0 } else { r.below(problems.len() as u64) as usize };
            let cancel = if i + 1 < len && r.chance(2, 5) {
                let k = r.below(12) as usize;
                if r.chance(2, 3) { Cancel::Transient(k) } else { Cancel::Sticky(k) }
            } else {
                Cancel::Never
            };
            history.push(Step { problem, cancel });
        }
        let opts = if r.chance(2, 3) { async_opts(r) } else { SolveOpts::default() };
        if r.chance(1, 300) && !crate::report::small() {
            let perms = gener::huge_perms(&u, r);
            let (u, problems) = gener::renumber_all(&u, &problems, &perms);
            return C13Case { family: format!("{name}+huge-ids"), u, problems, history, opts };
        }
        C13Case { family: name.into(), u, problems, history, opts }
    }
    /// A MARATHON on one solver (once per run, native only): a universe of 300 packages with 40
    /// candidates each, every package required, solved ~90 times on the same solver in
    /// alternation with smaller prefixes of the problem. Over its lifetime the solver allocates far
    /// more than 2^17 helper variables and a million clauses; whatever is carried over or counted
    /// across solves (ids, counters, recycled tables) meets its limits here. Oracle: every call
    /// returns Ok with a valid solution (each package's best candidate, by construction).
    fn fixed(&self, _tier: Tier, shard: u64, _nshards: u64, ctx: &mut Ctx) {
        if shard != 0 || crate::report::small() {
            return;
        }
        let mut u = Universe::default();
        let npk = 300u32;
        let mut reqs = vec![];
        for p in 0..npk {
            let name = format!("m{p}");
            for v in (1..=40u32).rev() {
                u.solv(&name, v);
            }
            reqs.push(Req::Single(u.vs(&name, 1, 41)));
        }
        u.finalize();
        let u = Rc::new(u);
        let rf = Ref::new(&u);
        let mut sess = Session::new(u.clone(), &SolveOpts::default());
        let mut helper_vars_estimate = 0u64;
        for round in 0..90u32 {
            // the full problem, or a prefix of it (different sizes, shared requirements)
            let n = match round % 3 {
                0 => npk as usize,
                1 => 100 + (round as usize * 7) % 150,
                _ => npk as usize - (round as usize % 40),
            };
            let p = Prob { reqs: reqs[..n].to_vec(), cons: vec![], soft: vec![] };
            ctx.rep.evaluations += 1;
            helper_vars_estimate += 6 * n as u64;
            let what = format!("marathon call #{round} ({n} packages, ~{helper_vars_estimate} helper variables allocated so far on this solver)");
            match sess.solve(&p) {
                Outcome::Ok(sol) => {
                    if sol.len() != n {
                        ctx.violation("verdict differs from a fresh solver", format!("{what}: {} solvables returned for {n} required packages", sol.len()));
                        break;
                    }
                    let bad = rf.check(&p, &sol, &[]);
                    if let Some(v) = bad.first() {
                        ctx.violation(format!("reused-invalid:{v}"), what.clone());
                        break;
                    }
                }
                Outcome::Unsat(_) => {
                    ctx.violation("verdict differs from a fresh solver", format!("{what}: Unsolvable for a trivially solvable problem"));
                    break;
                }
                Outcome::Panic(pi) => {
                    ctx.violation(format!("panic on reused solver: {}", pi.signature()), what.clone());
                    break;
                }
                o => {
                    ctx.violation("step budget exceeded on reused solver", format!("{what}: {}", o.tag()));
                    break;
                }
            }
        }
        ctx.rep.count("marathon-histories (90 calls, 300 packages x 40 candidates)");
        ctx.rep.max("marathon:helper-variables-allocated-on-one-solver (estimate)", helper_vars_estimate);
    }
    fn check(&self, c: &C13Case, ctx: &mut Ctx) {
        let u = Rc::new(c.u.clone());
        let rf = Ref::new(&u);
        use std::hash::{Hash, Hasher};
        let mut hh = std::collections::hash_map::DefaultHasher::new();
        c.u.hash(&mut hh);
        c.problems.hash(&mut hh);
        format!("{:?}", c.history).hash(&mut hh);
        let h = hh.finish();
        ctx.rep.distinct.insert(h);
        ctx.rep.count(&format!("family:{}", c.family));
        ctx.rep.count("histories");
        ctx.rep.max("max-calls-in-one-history", c.history.len() as u64);
        let mut sess = Session::new(u.clone(), &c.opts);
        let mut consumed = 0usize;
        let mut completed: BTreeMap<String, u32> = BTreeMap::new();
        let mut interrupted_while_parked = false;
        let mut interrupted_names: Vec<u32> = vec![];
        for (i, step) in c.history.iter().enumerate() {
            ctx.rep.evaluations += 1;
            let p = &c.problems[step.problem];
            // the poll counter restarts for each call so that the cancel index is relative to it
            sess.prov().polls.set(0);
            sess.prov().cancel.set(step.cancel);
            let out = sess.solve(p);
            sess.prov().cancel.set(Cancel::Never);
            note_outcome(ctx.rep, &out);
            let what = format!("call #{i} (problem {}, cancel {:?}, {:?})", step.problem, step.cancel, c.opts.mode);
            let log = sess.log();
            let seg = &log[consumed..];
            consumed = log.len();
            let new_events = seg.iter().filter(|e| matches!(e, Ev::CandCall(_) | Ev::DepsCall(_))).count();
            if new_events == 0 {
                ctx.rep.count("calls-served-entirely-from-cache");
            }
            for e in seg {
                if let Ev::CandRet(_) | Ev::DepsRet(_) = e {
                    let n = completed.entry(format!("{:?}", e)).or_insert(0);
                    *n += 1;
                    if *n == 2 {
                        ctx.violation("metadata obtained by an earlier call requested again", format!("{what}: {:?} completed twice on this solver", e));
                    }
                }
                if interrupted_while_parked {
                    if let Ev::CandCall(n) = e {
                        if interrupted_names.contains(n) {
                            ctx.rep.nontrivial.insert(h);
                        }
                    }
                }
            }
            let inflight = sess.solver.verif_in_flight();
            if inflight != 0 {
                ctx.rep.count("h2:in-flight-marker-present-after-return");
            }
            match &out {
                Outcome::Deadlock => {
                    ctx.violation("deadlock: call waits on a request that nobody will complete", what.clone());
                    return;
                }
                Outcome::Panic(pi) => {
                    ctx.violation(format!("panic on reused solver: {}", pi.signature()), what.clone());
                    return;
                }
                Outcome::Budget => {
                    ctx.violation("step budget exceeded on reused solver", what.clone());
                    return;
                }
                Outcome::Cancelled(_) => {
                    if step.cancel == Cancel::Never {
                        ctx.violation("Cancelled without a signal", what.clone());
                    }
                    ctx.rep.count("calls-cancelled");
                    let parked: Vec<Ev> = sess.prov().sched.parked.borrow().iter().map(|p| p.tag.clone()).collect();
                    // futures of the cancelled call were dropped: nothing may stay parked
                    if !parked.is_empty() {
                        ctx.rep.count("harness: parked entries left after cancelled call");
                    }
                    let last_q = seg.iter().rev().find_map(|e| if let Ev::Quiescent(t) = e { Some(t.clone()) } else { None });
                    // requests that were in flight when the call was cancelled
                    let mut open: Vec<u32> = vec![];
                    for e in seg {
                        match e {
                            Ev::CandCall(n) => open.push(*n),
                            Ev::CandRet(n) => open.retain(|x| x != n),
                            _ => {}
                        }
                    }
                    if !open.is_empty() {
                        interrupted_while_parked = true;
                        interrupted_names.extend(open);
                        ctx.rep.count("calls-cancelled-with-candidate-requests-in-flight");
                    }
                    let _ = last_q;
                    continue;
                }
                Outcome::Ok(_) | Outcome::Unsat(_) => {}
            }
            // model: fresh solver, synchronous
            let (_fs, fresh) = solve_once(&u, p, &SolveOpts { activity: c.opts.activity, ..SolveOpts::default() });
            match (fresh.verdict(), out.verdict()) {
                (Some(a), Some(b)) if a != b => {
                    ctx.violation("verdict differs from a fresh solver", format!("{what}: reused {} vs fresh {}", out.tag(), fresh.tag()));
                }
                (None, _) => ctx.rep.count("fresh-run-not-a-verdict (see C04)"),
                _ => {}
            }
            if let Outcome::Ok(sol) = &out {
                super::c01::check_ok("reused-invalid:", &rf, p, sol, &sess, ctx, &what);
                // soft requirements on a reused solver: "as correct as with a fresh solver" includes
                // the inclusion rule of C14 (a compatible soft solvable is not dropped because of
                // what earlier calls left in the cache)
                if !p.soft.is_empty() {
                    if let Some(uset) = super::c14::inclusion_precondition(&rf, p) {
                        ctx.rep.count("soft-inclusion-checked-on-reused-solver");
                        let missing: Vec<String> = p.soft.iter().filter(|x| !sol.contains(x)).map(|&x| u.solv_label(x)).collect();
                        if !missing.is_empty() {
                            // a fresh solver must include them; only then is the reused solver to blame
                            let fresh_has = matches!(&fresh, Outcome::Ok(fs) if p.soft.iter().all(|x| fs.contains(x)));
                            if fresh_has {
                                ctx.violation(
                                    "reused solver drops a compatible soft requirement that a fresh solver keeps",
                                    format!("{what}: {:?} missing; compatible union {:?}", missing, uset.iter().map(|&s| u.solv_label(s)).collect::<Vec<_>>()),
                                );
                            }
                        }
                    }
                }
            }
        }
        if interrupted_while_parked {
            ctx.rep.count("histories-with-cancellation-while-requests-in-flight");
            ctx.rep.sample(|| json!({"universe": universe_text(&u), "problems": c.problems.iter().map(|p| problem_text(&u, p)).collect::<Vec<_>>(), "history": c.history.iter().map(|s| format!("{:?}", s)).collect::<Vec<_>>(), "mode": format!("{:?}", c.opts.mode)}));
        }
    }
}
