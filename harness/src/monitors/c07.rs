//! C07 — mutually compatible preferred candidates are exactly the answer.
use std::{collections::BTreeSet, rc::Rc};

use serde_json::json;

use super::*;
use crate::{
    campaign::Monitor,
    gener,
    reference::Ref,
    report::{Ctx, Tier},
    run::{Outcome, solve_once},
};

pub struct C07;

pub const FAMILIES: &[(&str, u64)] = &[("lazy", 6), ("lazy-hints", 3), ("tiny", 2), ("tiny-hints", 1), ("medium", 1), ("many", 1)];

impl Monitor for C07 {
    type Case = SolverCase;
    fn id(&self) -> &'static str {
        "C07"
    }
    fn rule(&self) -> String {
        "cases = seeded conflict-poor universes (few constrains; unions, cycles, favored candidates that are not rank-first, random ranks, hints), run synchronously and under 3 async schedules with random activity parameters; whenever the reference first-choice closure satisfies the C07 precondition (closure valid, every requirement met only by its own first choice) the returned set must equal the closure. distinct = content hash; non-trivial = distinct case where the precondition holds and the closure has >= 3 solvables".into()
    }
    fn cases(&self, tier: Tier) -> u64 {
        tier.pick(400_000, 8_000_000)
    }
    fn floor(&self, tier: Tier) -> u64 {
        tier.pick(8_000, 80_000)
    }
    fn generate(&self, r: &mut Rng, _tier: Tier, _i: u64) -> SolverCase {
        let (name, cfg) = pick_family(r, FAMILIES);
        let (name, (u, p)) = if r.chance(1, 40) { ("wide-union", gener::wide_union(r)) } else { (name, gener::generate(r, &cfg)) };
        SolverCase { family: name.into(), u, p: p.hard(), runs: standard_runs(r, 3) }
    }
    fn check(&self, c: &SolverCase, ctx: &mut Ctx) {
        let u = Rc::new(c.u.clone());
        let rf = Ref::new(&u);
        let h = u.content_hash(&c.p);
        ctx.rep.distinct.insert(h);
        let Some(g) = rf.greedy(&c.p) else {
            ctx.rep.count("precondition-does-not-hold");
            return;
        };
        ctx.rep.count("precondition-holds");
        let gs: BTreeSet<u32> = g.iter().copied().collect();
        if g.len() >= 3 {
            ctx.rep.nontrivial.insert(h);
        }
        let fav_not_first = g.iter().any(|&s| {
            let pk = &u.pkgs[u.solvs[s as usize].name as usize];
            pk.favored == Some(s)
                && pk.candidates.as_ref().map_or(false, |c| c.iter().any(|&o| u.solvs[o as usize].rank < u.solvs[s as usize].rank))
        });
        if fav_not_first {
            ctx.rep.count("closure-contains-favored-that-is-not-rank-first");
        }
        if !u.unions.is_empty() {
            ctx.rep.count("with-unions");
        }
        for (k, opts) in c.runs.iter().enumerate() {
            ctx.rep.evaluations += 1;
            let (_sess, out) = solve_once(&u, &c.p, opts);
            note_outcome(ctx.rep, &out);
            match &out {
                Outcome::Ok(sol) => {
                    let set: BTreeSet<u32> = sol.iter().copied().collect();
                    if set != gs {
                        ctx.violation(
                            "first-choice-closure-not-returned",
                            format!("run {k} ({:?}): expected {:?}, got {:?}", opts.mode, gs.iter().map(|&s| u.solv_label(s)).collect::<Vec<_>>(), set.iter().map(|&s| u.solv_label(s)).collect::<Vec<_>>()),
                        );
                    }
                }
                Outcome::Unsat(_) => ctx.violation("unsolvable-although-first-choices-are-compatible", format!("run {k} ({:?})", opts.mode)),
                _ => ctx.rep.count("not-a-verdict (see C04/C10)"),
            }
        }
        // the same on a solver that has solved an unrelated problem before (two arbitrary version
        // sets of the universe): in a conflict-free problem eager encoding of what the first solve
        // fetched adds no constraint that could move the answer away from the first choices
        if h % 3 == 0 && !c.u.vsets.is_empty() {
            let nv = c.u.vsets.len() as u64;
            let other = Prob { reqs: vec![Req::Single((h / 7 % nv) as u32), Req::Single((h / 97 % nv) as u32)], cons: vec![], soft: vec![] };
            let mut sess = crate::run::Session::new(u.clone(), &c.runs[0]);
            let _ = sess.solve(&other);
            ctx.rep.evaluations += 1;
            match sess.solve(&c.p) {
                Outcome::Ok(sol) => {
                    ctx.rep.count("precondition-holds:also-solved-on-a-reused-solver");
                    let set: BTreeSet<u32> = sol.iter().copied().collect();
                    if set != gs {
                        ctx.violation("first-choice-closure-not-returned (solver reused after a different problem)", format!("first {}: expected {:?}, got {:?}", problem_text(&u, &other), gs.iter().map(|&s| u.solv_label(s)).collect::<Vec<_>>(), set.iter().map(|&s| u.solv_label(s)).collect::<Vec<_>>()));
                    }
                }
                Outcome::Unsat(_) => ctx.violation("unsolvable-although-first-choices-are-compatible (solver reused after a different problem)", problem_text(&u, &other)),
                _ => ctx.rep.count("not-a-verdict (see C04/C13)"),
            }
        }
        if g.len() >= 3 {
            ctx.rep.sample(|| json!({"universe": universe_text(&u), "problem": problem_text(&u, &c.p), "closure": g.iter().map(|&s| u.solv_label(s)).collect::<Vec<_>>()}));
        }
    }
}
