//! C16 — a dependency snapshot is a faithful, serialisable copy of a provider.
use std::{collections::BTreeSet, rc::Rc};

use resolvo::{
    DependencyProvider, Interner, NameId, Problem, Requirement, SolvableId, Solver, UnsolvableOrCancelled,
    VersionSetId,
    snapshot::{DependencySnapshot, SnapshotProvider},
};
use serde::{Deserialize, Serialize};
use serde_json::json;

use super::*;
use crate::{
    campaign::Monitor,
    gener,
    reference::Ref,
    report::{Ctx, Tier},
    run::{Caught, Outcome, catch, solve_once},
};

pub struct C16;

#[derive(Clone, Debug, Serialize, Deserialize)]
pub struct C16Case {
    pub family: String,
    pub sparse: bool,
    pub u: Universe,
    pub p: Prob,
    pub seed_names: Vec<u32>,
    pub seed_vsets: Vec<u32>,
    pub seed_solvables: Vec<u32>,
    /// (package, matcher) additions
    pub additions: Vec<(u32, String)>,
}

pub const FAMILIES: &[(&str, u64)] = &[("tiny", 3), ("tiny-hints", 1), ("medium", 3), ("conf", 3), ("lazy", 2), ("deep", 1), ("many", 1), ("many-hints", 1)];

fn snap_solve(prov: SnapshotProvider<'_>, reqs: Vec<Requirement>, cons: Vec<VersionSetId>) -> Caught<Result<Vec<u32>, bool>> {
    catch(move || {
        let mut solver = Solver::new(prov);
        match solver.solve(Problem::new().requirements(reqs).constraints(cons)) {
            Ok(v) => Ok(v.iter().map(|s| s.0).collect()),
            Err(UnsolvableOrCancelled::Unsolvable(_)) => Err(false),
            Err(UnsolvableOrCancelled::Cancelled(_)) => Err(true),
        }
    })
}

impl Monitor for C16 {
    type Case = C16Case;
    fn id(&self) -> &'static str {
        "C16"
    }
    fn rule(&self) -> String {
        "cases = seeded live universes without favored/locked (not representable), half of them renumbered into SPARSE id spaces (holes in every id space), a problem over single version sets, random seed subsets of names / version sets / solvables, and m = 0..5 add_package_requirement calls ('*' or a version substring). Checked for the snapshot and for its serde_json round trip: (1) capture succeeds; (2) every captured version set has the live name / display / matching set; (3) per package the snapshot `order` reproduces the live sort_candidates order; (4) added version sets get ids that are not captured ids and are pairwise distinct, and afterwards every captured version set still answers (name, display, filter) as before; (5) solving the problem through the SnapshotProvider gives the live verdict and a solution valid against the LIVE data; (6) the highest-numbered captured version set can be solved for; (7) solving for an added '*' version set agrees with the live provider on an all-versions set. distinct = content hash; non-trivial = distinct sparse-id case whose highest captured version set was solved for".into()
    }
    fn cases(&self, tier: Tier) -> u64 {
        tier.pick(48_000, 960_000)
    }
    fn floor(&self, tier: Tier) -> u64 {
        tier.pick(3_000, 30_000)
    }
    fn generate(&self, r: &mut Rng, _tier: Tier, _i: u64) -> C16Case {
        let (name, cfg) = pick_family(r, FAMILIES);
        let (mut u, mut p) = gener::generate(r, &cfg);
        for pk in &mut u.pkgs {
            pk.favored = None;
            pk.locked = None;
        }
        p = p.hard();
        p.reqs.retain(|q| matches!(q, Req::Single(_)));
        // an all-versions set per package (not seeded: stays uncaptured unless referenced)
        let npk = u.pkgs.len();
        for pi in 0..npk {
            let nm = u.pkgs[pi].name.clone();
            let all: Vec<u32> = u.pkgs[pi].candidates.clone().unwrap_or_default();
            u.vs_ext(&nm, "all", all);
        }
        let sparse = r.chance(1, 2);
        let (u, p) = if sparse { gener::renumber(&u, &p, r, true) } else { (u, p) };
        let rf_names: Vec<u32> = (0..u.pkgs.len() as u32).filter(|&n| !u.pkgs[n as usize].name.starts_with("hole")).collect();
        let seed_names: Vec<u32> = rf_names.iter().copied().filter(|_| r.chance(1, 3)).collect();
        let mut seed_vsets: BTreeSet<u32> = BTreeSet::new();
        for q in &p.reqs {
            if let Req::Single(v) = q {
                seed_vsets.insert(*v);
            }
        }
        seed_vsets.extend(p.cons.iter().copied());
        for v in 0..u.vsets.len() as u32 {
            let vs = &u.vsets[v as usize];
            if !vs.label.starts_with("hole") && vs.label != "all" && r.chance(1, 6) {
                seed_vsets.insert(v);
            }
        }
        let real_solvs: Vec<u32> = (0..u.solvs.len() as u32).filter(|&s| (u.solvs[s as usize].name as usize) < u.pkgs.len() && !u.pkgs[u.solvs[s as usize].name as usize].name.starts_with("hole")).collect();
        let seed_solvables: Vec<u32> = real_solvs.iter().copied().filter(|_| r.chance(1, 8)).collect();
        let nadd = r.below(6) as usize;
        let mut additions = vec![];
        for _ in 0..nadd {
            if rf_names.is_empty() {
                break;
            }
            let n = *r.pick(&rf_names);
            let matcher = if r.chance(2, 3) { "*".to_string() } else { format!("={}", 1 + r.below(4)) };
            additions.push((n, matcher));
        }
        C16Case { family: name.into(), sparse, u, p, seed_names, seed_vsets: seed_vsets.into_iter().collect(), seed_solvables, additions }
    }
    fn check(&self, c: &C16Case, ctx: &mut Ctx) {
        let u = Rc::new(c.u.clone());
        let rf = Ref::new(&u);
        let h = u.content_hash(&c.p);
        ctx.rep.distinct.insert(h);
        ctx.rep.count(&format!("family:{}", c.family));
        ctx.rep.count(if c.sparse { "sparse-id-universes" } else { "dense-id-universes" });
        ctx.rep.evaluations += 1;
        let snap = match catch(|| {
            DependencySnapshot::from_provider(
                Prov::new(u.clone()),
                c.seed_names.iter().map(|&n| NameId(n)),
                c.seed_vsets.iter().map(|&v| VersionSetId(v)),
                c.seed_solvables.iter().map(|&s| SolvableId(s)),
            )
        }) {
            Caught::Ok(Ok(s)) => s,
            Caught::Ok(Err(_)) => {
                ctx.violation("from_provider reported cancellation without a signal", String::new());
                return;
            }
            Caught::Panic(pi) => {
                ctx.violation(format!("from_provider panicked: {}", pi.signature()), String::new());
                return;
            }
            _ => {
                ctx.violation("from_provider did not return", String::new());
                return;
            }
        };
        let js = match serde_json::to_string(&snap) {
            Ok(j) => j,
            Err(e) => {
                ctx.violation("snapshot cannot be serialised", e.to_string());
                return;
            }
        };
        let snap2: DependencySnapshot = match serde_json::from_str(&js) {
            Ok(s) => s,
            Err(e) => {
                ctx.violation("serialised snapshot cannot be deserialised", e.to_string().chars().take(120).collect::<String>());
                return;
            }
        };
        ctx.rep.count("round-trips");
        let live = {
            let (_s, out) = solve_once(&u, &c.p, &SolveOpts::default());
            match out {
                Outcome::Ok(v) => Some(Ok(v)),
                Outcome::Unsat(_) => Some(Err(())),
                _ => None,
            }
        };
        let reqs: Vec<Requirement> = c.p.reqs.iter().map(|&r| to_req(r)).collect();
        let cons: Vec<VersionSetId> = c.p.cons.iter().map(|&v| VersionSetId(v)).collect();
        let highest_captured = c.seed_vsets.iter().copied().max();
        for (which, sn) in [("snapshot", &snap), ("round-trip", &snap2)] {
            // (2) captured version sets
            let mut captured_ids: BTreeSet<u32> = BTreeSet::new();
            for &v in &c.seed_vsets {
                match sn.version_sets.get(VersionSetId(v)) {
                    None => ctx.violation(format!("{which}: seeded version set not captured"), format!("vs{v}")),
                    Some(vs) => {
                        captured_ids.insert(v);
                        let live_vs = &u.vsets[v as usize];
                        let m: BTreeSet<u32> = vs.matching_candidates.iter().map(|s| s.0).collect();
                        let lm: BTreeSet<u32> = rf.cands_vs(v).iter().copied().collect();
                        if vs.name.0 != live_vs.name || vs.display != live_vs.label || m != lm {
                            ctx.violation(format!("{which}: captured version set differs from the live one"), format!("vs{v}: {:?}/{:?}/{:?} vs live {:?}/{:?}/{:?}", vs.name.0, vs.display, m, live_vs.name, live_vs.label, lm));
                        }
                    }
                }
            }
            // every id the mapping knows (via get) up to the live count
            for v in 0..u.vsets.len() as u32 {
                if sn.version_sets.get(VersionSetId(v)).is_some() {
                    captured_ids.insert(v);
                }
            }
            // (3) preference order
            for (pi, pk) in u.pkgs.iter().enumerate() {
                let (Some(cands), Some(_)) = (&pk.candidates, sn.packages.get(NameId(pi as u32))) else { continue };
                let mut live_order = cands.clone();
                live_order.sort_by_key(|&s| u.solvs[s as usize].rank);
                if cands.iter().any(|&s| sn.solvables.get(SolvableId(s)).is_none()) {
                    ctx.violation(format!("{which}: candidate of a captured package missing from the snapshot"), format!("package {}", pk.name));
                    continue;
                }
                // observed through behaviour: what the snapshot provider's sort_candidates does to
                // the package's candidate list
                let snap_order: Vec<u32> = match catch(|| {
                    let cache = resolvo::SolverCache::new(sn.provider());
                    let mut list: Vec<SolvableId> = cands.iter().map(|&s| SolvableId(s)).collect();
                    futures::FutureExt::now_or_never(cache.provider().sort_candidates(&cache, &mut list)).expect("sort_candidates yielded");
                    list.iter().map(|s| s.0).collect()
                }) {
                    Caught::Ok(v) => v,
                    Caught::Panic(pi) => {
                        ctx.violation(format!("{which}: sort_candidates of the snapshot provider panicked: {}", pi.signature()), format!("package {}", pk.name));
                        continue;
                    }
                    _ => continue,
                };
                ctx.rep.count("package-orders-compared");
                if live_order != snap_order && cands.len() > 1 {
                    ctx.violation(format!("{which}: candidate preference order not preserved"), format!("package {}: live {:?} snapshot {:?}", pk.name, live_order, snap_order));
                }
            }
            // (3b) union members in the order the live provider lists them (the ranking of a
            // union requirement's candidates starts with that order)
            for (un, members) in sn.version_set_unions.iter() {
                let got: Vec<u32> = match catch(|| sn.provider().version_sets_in_union(un).map(|v| v.0).collect::<Vec<u32>>()) {
                    Caught::Ok(v) => v,
                    _ => continue,
                };
                let _ = members;
                ctx.rep.count("union-member-orders-compared");
                if let Some(live) = u.unions.get(un.0 as usize) {
                    if &got != live {
                        ctx.violation(format!("{which}: union members not listed in the live provider's order"), format!("union {}: live {:?} snapshot {:?}", un.0, live, got));
                    }
                }
            }
            // (4) additions
            let r = catch(|| {
                let mut prov = sn.provider();
                let mut added: Vec<(u32, u32, String)> = vec![];
                let mut problems: Vec<(String, String)> = vec![];
                for (n, matcher) in &c.additions {
                    if sn.packages.get(NameId(*n)).is_none() {
                        continue;
                    }
                    let id = prov.add_package_requirement(NameId(*n), matcher);
                    if captured_ids.contains(&id.0) {
                        problems.push(("added version set received the id of a captured version set".into(), format!("new id {} is captured (captured ids {:?})", id.0, captured_ids)));
                    }
                    if added.iter().any(|a| a.0 == id.0) {
                        problems.push(("two added version sets share an id".into(), format!("id {}", id.0)));
                    }
                    added.push((id.0, *n, matcher.clone()));
                }
                // captured version sets unchanged after the additions
                for &v in &captured_ids {
                    let vs = sn.version_sets.get(VersionSetId(v)).unwrap();
                    let name = prov.version_set_name(VersionSetId(v));
                    let disp = prov.display_version_set(VersionSetId(v)).to_string();
                    if name != vs.name || disp != vs.display {
                        problems.push(("captured version set answers differently after additions".into(), format!("vs{v}: now {:?}/{:?}, captured {:?}/{:?}", name.0, disp, vs.name.0, vs.display)));
                        continue;
                    }
                    if let Some(pk) = sn.packages.get(vs.name) {
                        let f = futures::FutureExt::now_or_never(prov.filter_candidates(&pk.solvables, VersionSetId(v), false)).unwrap();
                        let got: BTreeSet<u32> = f.iter().map(|s| s.0).collect();
                        let want: BTreeSet<u32> = vs.matching_candidates.iter().map(|s| s.0).collect();
                        if got != want {
                            problems.push(("captured version set filters differently after additions".into(), format!("vs{v}: {:?} vs {:?}", got, want)));
                        }
                    }
                }
                // added ones answer as specified
                for (id, n, matcher) in &added {
                    let name = prov.version_set_name(VersionSetId(*id));
                    if name.0 != *n || prov.display_version_set(VersionSetId(*id)).to_string() != *matcher {
                        problems.push(("added version set does not resolve to what was added".into(), format!("id {id}: name {:?}", name.0)));
                    }
                }
                (prov, added, problems)
            });
            let (prov, added) = match r {
                Caught::Ok((prov, added, problems)) => {
                    for (k, d) in problems {
                        ctx.violation(format!("{which}: {k}"), d);
                    }
                    (prov, added)
                }
                Caught::Panic(pi) => {
                    ctx.violation(format!("{which}: panic while adding / resolving version sets: {}", pi.signature()), format!("additions {:?}", c.additions));
                    continue;
                }
                _ => continue,
            };
            ctx.rep.add("version-sets-added", added.len() as u64);
            // (5) solve the problem through the snapshot (with additions present)
            match (snap_solve(prov, reqs.clone(), cons.clone()), &live) {
                (Caught::Ok(Ok(sol)), Some(Ok(_))) => {
                    ctx.rep.count("solutions-validated-against-live-data");
                    for v in rf.check(&c.p, &sol, &[]) {
                        ctx.violation(format!("{which}: solution invalid against the live provider"), v);
                    }
                }
                (Caught::Ok(Err(false)), Some(Err(()))) => ctx.rep.count("unsolvable-verdicts-agreed"),
                (Caught::Ok(Ok(_)), Some(Err(()))) | (Caught::Ok(Err(false)), Some(Ok(_))) => ctx.violation(format!("{which}: verdict differs from the live provider"), String::new()),
                (Caught::Ok(Err(true)), _) => ctx.violation(format!("{which}: cancelled without a signal"), String::new()),
                (Caught::Panic(pi), _) => ctx.violation(format!("{which}: panic while solving through the snapshot: {}", pi.signature()), String::new()),
                (_, None) => ctx.rep.count("live-run-not-a-verdict (see C04)"),
                _ => ctx.violation(format!("{which}: solving through the snapshot did not return"), String::new()),
            }
            // (6) highest-numbered captured version set
            if let Some(hv) = highest_captured {
                let (_s, live_h) = solve_once(&u, &Prob { reqs: vec![Req::Single(hv)], cons: vec![], soft: vec![] }, &SolveOpts::default());
                let mut prov = sn.provider();
                for (n, matcher) in c.additions.iter().take(1) {
                    if sn.packages.get(NameId(*n)).is_some() {
                        let _ = catch(|| prov.add_package_requirement(NameId(*n), matcher));
                    }
                }
                match (snap_solve(prov, vec![Requirement::Single(VersionSetId(hv))], vec![]), live_h.verdict()) {
                    (Caught::Ok(Ok(sol)), Some(true)) => {
                        for v in rf.check(&Prob { reqs: vec![Req::Single(hv)], cons: vec![], soft: vec![] }, &sol, &[]) {
                            ctx.violation(format!("{which}: highest captured version set: solution invalid against live data"), v);
                        }
                    }
                    (Caught::Ok(Err(false)), Some(false)) => {}
                    (Caught::Ok(_), Some(_)) => ctx.violation(format!("{which}: highest captured version set: verdict differs from live"), format!("vs{hv}")),
                    (Caught::Panic(pi), _) => ctx.violation(format!("{which}: highest captured version set cannot be resolved: {}", pi.signature()), format!("vs{hv}")),
                    _ => {}
                }
                if c.sparse {
                    ctx.rep.nontrivial.insert(h);
                }
                ctx.rep.count("highest-captured-version-set-solved-for");
            }
            // (7) an added '*' version set behaves like an all-versions set
            let mut prov = sn.provider();
            let star = c.additions.iter().find(|(n, m)| m == "*" && sn.packages.get(NameId(*n)).is_some());
            if let Some((n, _)) = star {
                if let Caught::Ok(id) = catch(|| prov.add_package_requirement(NameId(*n), "*")) {
                    let live_all = (0..u.vsets.len() as u32).find(|&v| u.vsets[v as usize].name == *n && u.vsets[v as usize].label == "all");
                    if let Some(la) = live_all {
                        let (_s, lo) = solve_once(&u, &Prob { reqs: vec![Req::Single(la)], cons: vec![], soft: vec![] }, &SolveOpts::default());
                        match (snap_solve(prov, vec![Requirement::Single(id)], vec![]), lo.verdict()) {
                            (Caught::Ok(Ok(sol)), Some(true)) => {
                                ctx.rep.count("added-version-sets-solved-for");
                                for v in rf.check(&Prob { reqs: vec![Req::Single(la)], cons: vec![], soft: vec![] }, &sol, &[]) {
                                    ctx.violation(format!("{which}: added '*' version set: solution invalid against live data"), v);
                                }
                            }
                            (Caught::Ok(Err(false)), Some(false)) => ctx.rep.count("added-version-sets-solved-for"),
                            (Caught::Ok(_), Some(_)) => ctx.violation(format!("{which}: added '*' version set: verdict differs from live all-versions set"), format!("package {}", u.pkgs[*n as usize].name)),
                            (Caught::Panic(pi), _) => ctx.violation(format!("{which}: added '*' version set cannot be solved for: {}", pi.signature()), String::new()),
                            _ => {}
                        }
                    }
                }
            }
        }
        if c.sparse {
            ctx.rep.sample(|| json!({"sparse": true, "universe": universe_text(&u).into_iter().filter(|l| !l.starts_with("hole")).collect::<Vec<_>>(), "problem": problem_text(&u, &c.p), "seed_vsets": c.seed_vsets, "additions": c.additions, "ids": {"packages": u.pkgs.len(), "solvables": u.solvs.len(), "version_sets": u.vsets.len()}}));
        }
    }
}
