//! C11 — independent metadata requests are issued concurrently.
use std::{collections::BTreeSet, rc::Rc};

use serde::{Deserialize, Serialize};
use serde_json::json;

use super::*;
use crate::{
    campaign::Monitor,
    gener,
    reference::Ref,
    report::{Ctx, Tier},
    run::{Outcome, solve_once},
    sched::Policy,
};

pub struct C11;

#[derive(Clone, Debug, Serialize, Deserialize)]
pub struct C11Case {
    pub family: String,
    pub u: Universe,
    pub p: Prob,
    pub policies: Vec<Policy>,
    /// for fan-out cases: the number of candidate requests expected in flight at the first
    /// quiescent point (root fan-out) or right after the hub's dependencies returned
    pub expect_root_width: Option<usize>,
    pub pause_mask: u8,
}

pub const FAMILIES: &[(&str, u64)] = &[("tiny", 3), ("tiny-hints", 2), ("medium", 3), ("medium-hints", 2), ("conf", 2), ("lazy", 2), ("tiny-soft", 1)];

/// root (or a hub solvable) with k requirements / constrains / union members on distinct packages
pub fn fanout(r: &mut Rng, k: usize) -> (Universe, Prob, usize) {
    let mut u = Universe::default();
    let shape = r.below(4);
    let mut p = Prob::default();
    let mut targets: Vec<u32> = vec![];
    for i in 0..k {
        let name = format!("f{i}");
        let nv = 1 + r.below(3) as u32;
        for v in 1..=nv {
            u.solv(&name, v);
        }
        targets.push(u.vs(&name, 1, nv + 1));
    }
    match shape {
        // root with k single requirements
        0 => {
            p.reqs = targets.iter().map(|&v| Req::Single(v)).collect();
        }
        // root with one union over k packages
        1 => {
            let un = u.union(targets.clone());
            p.reqs = vec![Req::Union(un)];
        }
        // root with requirements and constraints mixed
        2 => {
            for (i, &v) in targets.iter().enumerate() {
                if i % 2 == 0 {
                    p.reqs.push(Req::Single(v));
                } else {
                    p.cons.push(v);
                }
            }
            if p.reqs.is_empty() {
                p.reqs.push(Req::Single(targets[0]));
            }
        }
        // hub solvable with k requirements; root requires the hub
        _ => {
            let hub = u.solv("hub", 1);
            for &v in &targets {
                u.add_req(hub, Req::Single(v));
            }
            let vh = u.vs("hub", 1, 2);
            p.reqs = vec![Req::Single(vh)];
        }
    }
    u.finalize();
    let width = if shape == 3 { 1 } else { k };
    (u, p, width)
}

/// One package with 260..420 hinted candidates; some candidates (the first-ranked one among them)
/// require further packages that nothing else mentions.
pub fn many_hinted(r: &mut Rng) -> (Universe, Prob) {
    let mut u = Universe::default();
    let n = 260 + r.below(160) as u32;
    for v in 1..=n {
        u.solv("big", v);
    }
    let extra = 1 + r.below(4) as usize;
    for k in 0..extra {
        let nm = format!("e{k}");
        u.solv(&nm, 1);
        let vs = u.vs(&nm, 0, 100);
        // the newest candidate always names one; others at random positions
        let who = if k == 0 { n } else { 1 + r.below(n as u64) as u32 };
        let s = u.solv("big", who);
        u.add_req(s, Req::Single(vs));
    }
    let root = u.vs("big", 0, 10_000);
    u.finalize();
    let bi = u.pkgs.iter().position(|p| p.name == "big").unwrap();
    u.pkgs[bi].hint = Hint::All;
    (u, Prob { reqs: vec![Req::Single(root)], cons: vec![], soft: vec![] })
}

impl Monitor for C11 {
    type Case = C11Case;
    fn id(&self) -> &'static str {
        "C11"
    }
    fn rule(&self) -> String {
        "cases = (a) seeded random universes and (b) fan-out shapes (root or a hub solvable with k = 1..12 (one in sixteen: k up to 400) single requirements / one k-member union / mixed requirements+constraints on distinct packages), each solved under the manual executor with 4 release policies. The executor logs every quiescent point (solver future returned Pending) with the multiset of parked provider futures. Online monitor: at every quiescent point, every package name mentioned by dependency information already returned (root requirements and constraints; requirements and constrains of each solvable whose get_dependencies has returned) must already have a get_candidates call in the log. For fan-out shapes additionally: k get_candidates futures are parked simultaneously at the first quiescent point (after the hub's dependencies return for the hub shape). distinct = content hash; non-trivial = distinct case with a quiescent point at which >= 2 implied names existed".into()
    }
    fn cases(&self, tier: Tier) -> u64 {
        tier.pick(240_000, 4_800_000)
    }
    fn floor(&self, tier: Tier) -> u64 {
        tier.pick(12_000, 120_000)
    }
    fn generate(&self, r: &mut Rng, _tier: Tier, i: u64) -> C11Case {
        let mut policies = vec![Policy::Oldest, Policy::Newest, Policy::Random(r.next()), Policy::Random(r.next())];
        if i % 4 == 0 {
            // mostly k = 1..12; one in sixteen fan-outs is WIDE (beyond any small fixed cap on the
            // number of requests in flight, and across the 2^k / chunk sizes used internally)
            let wide = [16usize, 31, 33, 63, 64, 65, 100, 128, 129, 200, 257, 400];
            let k = if i / 4 % 16 == 13 && !crate::report::small() { wide[r.below(wide.len() as u64) as usize] } else { 1 + (i / 4 % 12) as usize };
            let (u, p, w) = fanout(r, k);
            policies.truncate(3);
            return C11Case { family: format!("fanout-{k}"), u, p, policies, expect_root_width: Some(w), pause_mask: PAUSE_CANDS | PAUSE_DEPS };
        }
        if i % 997 == 5 {
            // a package with hundreds of candidates whose dependencies are all hinted as available
            // (hundreds of requests pending at once); a few of them name further packages
            let (u, p) = many_hinted(r);
            policies.truncate(2);
            return C11Case { family: "hinted-many".into(), u, p, policies, expect_root_width: None, pause_mask: PAUSE_CANDS | PAUSE_DEPS };
        }
        let (name, cfg) = pick_family(r, FAMILIES);
        let (u, p) = gener::generate(r, &cfg);
        C11Case { family: name.into(), u, p, policies, expect_root_width: None, pause_mask: random_pause_mask(r) }
    }
    fn check(&self, c: &C11Case, ctx: &mut Ctx) {
        let u = Rc::new(c.u.clone());
        let rf = Ref::new(&u);
        let h = u.content_hash(&c.p);
        ctx.rep.distinct.insert(h);
        ctx.rep.count(&format!("family:{}", c.family.split('-').next().unwrap_or("")));
        for pol in &c.policies {
            ctx.rep.evaluations += 1;
            let opts = SolveOpts { mode: Mode::Async(pol.clone()), pause_mask: c.pause_mask, ..SolveOpts::default() };
            let (sess, out) = solve_once(&u, &c.p, &opts);
            note_outcome(ctx.rep, &out);
            if matches!(out, Outcome::Panic(_) | Outcome::Deadlock | Outcome::Budget) {
                ctx.rep.count("not-a-verdict (see C04/C10)");
                continue;
            }
            let log = sess.log();
            let mut implied: BTreeSet<u32> = rf.names_of(&c.p.reqs, &c.p.cons);
            let mut called: BTreeSet<u32> = BTreeSet::new();
            let mut first_q = true;
            let mut max_width = 0usize;
            for e in &log {
                match e {
                    Ev::CandCall(n) => {
                        called.insert(*n);
                    }
                    Ev::DepsRet(s) => {
                        // information is "received" by the solver when the future completes, i.e.
                        // it is implied from the next quiescent point on
                        if let Deps::Known { reqs, cons } = &u.solvs[*s as usize].deps {
                            implied.extend(rf.names_of(reqs, cons));
                        }
                    }
                    Ev::Quiescent(parked) => {
                        ctx.rep.count("quiescent-points-checked");
                        if implied.len() >= 2 {
                            ctx.rep.nontrivial.insert(h);
                        }
                        let missing: Vec<&String> = implied.difference(&called).map(|&n| &u.pkgs[n as usize].name).collect();
                        if !missing.is_empty() {
                            ctx.violation(
                                "implied get_candidates not issued at quiescent point",
                                format!("policy {:?}: solver blocked with {:?} parked while candidates of {:?} were never requested", pol, parked, missing),
                            );
                        }
                        let width = parked.iter().filter(|t| matches!(t, Ev::CandCall(_))).count();
                        max_width = max_width.max(width);
                        if first_q {
                            first_q = false;
                            if let (Some(w), false) = (c.expect_root_width, c.family.is_empty()) {
                                if width != w {
                                    ctx.violation(
                                        "fan-out not concurrent at first quiescent point",
                                        format!("{}: expected {w} get_candidates futures in flight, found {width}: {:?}", c.family, parked),
                                    );
                                }
                            }
                        }
                    }
                    _ => {}
                }
            }
            ctx.rep.max("max-candidate-requests-in-flight", max_width as u64);
            if let Some(_) = c.expect_root_width {
                // all k packages must have been in flight simultaneously at some point
                let k: usize = c.family.trim_start_matches("fanout-").parse().unwrap_or(0);
                ctx.rep.count(&format!("fanout-width:{k}"));
                if max_width < k {
                    ctx.violation("fan-out requests serialized", format!("{}: at most {max_width} of {k} candidate requests were in flight together (policy {:?})", c.family, pol));
                }
            }
        }
        if c.expect_root_width.is_some() {
            ctx.rep.sample(|| json!({"family": c.family, "universe": universe_text(&u), "problem": problem_text(&u, &c.p)}));
        }
    }
}
