//! C09 — metadata is fetched lazily, causally and at most once (trace specification).
use std::{
    collections::{BTreeMap, BTreeSet},
    rc::Rc,
};

use serde::{Deserialize, Serialize};
use serde_json::json;

use super::*;
use crate::{
    campaign::Monitor,
    gener,
    reference::Ref,
    report::{Ctx, Tier},
    run::{Outcome, Session},
};

pub struct C09;

#[derive(Clone, Debug, Serialize, Deserialize)]
pub struct C09Case {
    pub family: String,
    pub u: Universe,
    /// successive problems solved on ONE solver (one log)
    pub problems: Vec<Prob>,
    pub opts: SolveOpts,
}

pub const FAMILIES: &[(&str, u64)] = &[("lazy", 6), ("tiny", 2), ("tiny-soft", 2), ("medium", 2), ("conf", 2), ("deep", 1)];

/// Online checker of the trace specification. Fed event by event.
pub struct TraceChecker<'a> {
    rf: &'a Ref<'a>,
    known_reqs: BTreeSet<Req>,
    known_names: BTreeSet<u32>,
    soft: BTreeSet<u32>,
    pub cand_calls: BTreeMap<u32, u32>,
    pub deps_calls: BTreeMap<u32, u32>,
    /// requests the provider has answered (for ever), and requests issued in the current solve
    /// that are still unanswered (a cancelled solve drops those; they may be re-issued later)
    cand_answered: BTreeSet<u32>,
    deps_answered: BTreeSet<u32>,
    cand_open: BTreeSet<u32>,
    deps_open: BTreeSet<u32>,
    pub events: u64,
}

impl<'a> TraceChecker<'a> {
    pub fn new(rf: &'a Ref<'a>) -> Self {
        TraceChecker { rf, known_reqs: Default::default(), known_names: Default::default(), soft: Default::default(), cand_calls: Default::default(), deps_calls: Default::default(), cand_answered: Default::default(), deps_answered: Default::default(), cand_open: Default::default(), deps_open: Default::default(), events: 0 }
    }
    pub fn start_problem(&mut self, p: &Prob) {
        self.known_reqs.extend(p.reqs.iter().copied());
        self.known_names.extend(self.rf.names_of(&p.reqs, &p.cons));
        self.soft.extend(p.soft.iter().copied());
    }
    pub fn feed(&mut self, e: &Ev, out: &mut Vec<(String, String)>) {
        self.events += 1;
        let u = self.rf.u;
        match e {
            Ev::SolveStart(_) => {
                self.cand_open.clear();
                self.deps_open.clear();
            }
            Ev::CandRet(n) => {
                self.cand_open.remove(n);
                self.cand_answered.insert(*n);
            }
            Ev::CandCall(n) => {
                *self.cand_calls.entry(*n).or_insert(0) += 1;
                let dup = self.cand_answered.contains(n) || !self.cand_open.insert(*n);
                if dup {
                    out.push(("get_candidates-called-twice".into(), format!("package {}", u.pkgs[*n as usize].name)));
                }
                if !self.known_names.contains(n) {
                    out.push(("get_candidates-for-name-nobody-mentioned-yet".into(), format!("package {}", u.pkgs[*n as usize].name)));
                }
            }
            Ev::DepsCall(s) => {
                *self.deps_calls.entry(*s).or_insert(0) += 1;
                let dup = self.deps_answered.contains(s) || !self.deps_open.insert(*s);
                if dup {
                    out.push(("get_dependencies-called-twice".into(), format!("solvable {}", u.solv_label(*s))));
                }
                let ok = self.soft.contains(s) || self.known_reqs.iter().any(|&r| self.rf.req_has(r, |x| x == *s));
                if !ok {
                    out.push(("get_dependencies-for-solvable-that-no-obtained-requirement-matches".into(), format!("solvable {}", u.solv_label(*s))));
                }
            }
            Ev::DepsRet(s) => {
                self.deps_open.remove(s);
                self.deps_answered.insert(*s);
                if let Deps::Known { reqs, cons } = &u.solvs[*s as usize].deps {
                    self.known_reqs.extend(reqs.iter().copied());
                    self.known_names.extend(self.rf.names_of(reqs, cons));
                }
            }
            _ => {}
        }
    }
}

impl Monitor for C09 {
    type Case = C09Case;
    fn id(&self) -> &'static str {
        "C09"
    }
    fn rule(&self) -> String {
        "cases = seeded hint-free universes (conflict-poor, tiny, soft lists, constrains-heavy), 1-3 successive problems solved on ONE solver so that the provider log spans solves; an online trace checker consumes every provider event: get_dependencies only for soft solvables or matching candidates of a requirement obtained earlier in the log, get_candidates only for names mentioned by dependencies obtained earlier, each call at most once per solver (a request is a repeat if the provider already ANSWERED it, or if it is issued twice within one solve; a third of the multi-problem cases has a transient cancellation signal at a random poll, after which the sequence continues); when the reference first-choice closure exists (C07 precondition, first problem, no soft) the fetched sets must be EXACTLY the closure / the names it and the root mention. distinct = content hash; non-trivial = distinct conflict-free case in which at least one lower-ranked candidate existed and stayed unfetched".into()
    }
    fn cases(&self, tier: Tier) -> u64 {
        tier.pick(480_000, 9_600_000)
    }
    fn floor(&self, tier: Tier) -> u64 {
        tier.pick(8_000, 80_000)
    }
    fn generate(&self, r: &mut Rng, _tier: Tier, _i: u64) -> C09Case {
        let (name, cfg) = pick_family(r, FAMILIES);
        let (u, p) = gener::generate(r, &cfg);
        let mut problems = vec![p.clone()];
        // further problems over the same universe: reuse version sets that exist
        let extra = r.below(3);
        for _ in 0..extra {
            let mut q = Prob::default();
            if !u.vsets.is_empty() {
                for _ in 0..1 + r.below(2) {
                    q.reqs.push(Req::Single(r.below(u.vsets.len() as u64) as u32));
                }
            }
            if r.chance(1, 3) && !u.solvs.is_empty() && name == "tiny-soft" {
                q.soft.push(r.below(u.solvs.len() as u64) as u32);
            }
            problems.push(q);
        }
        let mut opts = if r.chance(1, 3) { async_opts(r) } else { SolveOpts::default() };
        // a transient cancellation signal somewhere in the sequence: the solve that sees it ends
        // as Cancelled, the later ones must not ask again for anything that was answered
        if problems.len() >= 2 && r.chance(1, 3) {
            opts.cancel = Cancel::Transient(r.below(30) as usize);
            // solve the first problem again at the end: everything it needs was asked for before
            problems.push(p.clone());
        }
        // one case in 250: the same universe with ids spread over a huge range
        if r.chance(1, 250) && !crate::report::small() {
            let perms = gener::huge_perms(&u, r);
            let (u, problems) = gener::renumber_all(&u, &problems, &perms);
            return C09Case { family: format!("{name}+huge-ids"), u, problems, opts };
        }
        C09Case { family: name.into(), u, problems, opts }
    }
    fn check(&self, c: &C09Case, ctx: &mut Ctx) {
        let u = Rc::new(c.u.clone());
        let rf = Ref::new(&u);
        let h = u.content_hash(&c.problems[0]);
        ctx.rep.distinct.insert(h);
        ctx.rep.count(&format!("family:{}", c.family));
        let mut sess = Session::new(u.clone(), &c.opts);
        let mut checker = TraceChecker::new(&rf);
        let mut consumed = 0usize;
        for (i, p) in c.problems.iter().enumerate() {
            ctx.rep.evaluations += 1;
            checker.start_problem(p);
            let out = sess.solve(p);
            note_outcome(ctx.rep, &out);
            let log = sess.log();
            let mut vio = vec![];
            for e in &log[consumed..] {
                checker.feed(e, &mut vio);
            }
            consumed = log.len();
            for (k, d) in vio {
                ctx.violation(k, format!("solve #{i}: {d}"));
            }
            if matches!(out, Outcome::Panic(_) | Outcome::Deadlock | Outcome::Budget) {
                ctx.rep.count("not-a-verdict (see C04/C10)");
                return;
            }
            // exactness on conflict-free problems (first solve only: later ones reuse the cache)
            if i == 0 && p.soft.is_empty() {
                if let (Some(g), Outcome::Ok(_)) = (rf.greedy(p), &out) {
                    ctx.rep.count("conflict-free-cases-with-exactness-checked");
                    let gs: BTreeSet<u32> = g.iter().copied().collect();
                    let ds: BTreeSet<u32> = checker.deps_calls.keys().copied().collect();
                    if gs != ds {
                        ctx.violation(
                            "conflict-free: dependencies fetched != solvables of the solution",
                            format!("solution {:?}, fetched {:?}", gs.iter().map(|&s| u.solv_label(s)).collect::<Vec<_>>(), ds.iter().map(|&s| u.solv_label(s)).collect::<Vec<_>>()),
                        );
                    }
                    let mut names = rf.names_of(&p.reqs, &p.cons);
                    for &s in &g {
                        if let Deps::Known { reqs, cons } = &u.solvs[s as usize].deps {
                            names.extend(rf.names_of(reqs, cons));
                        }
                    }
                    let cs: BTreeSet<u32> = checker.cand_calls.keys().copied().collect();
                    if names != cs {
                        ctx.violation(
                            "conflict-free: candidates fetched != names mentioned by root and solution",
                            format!("mentioned {:?}, fetched {:?}", names.iter().map(|&n| &u.pkgs[n as usize].name).collect::<Vec<_>>(), cs.iter().map(|&n| &u.pkgs[n as usize].name).collect::<Vec<_>>()),
                        );
                    }
                    // laziness actually observed: lower ranked candidates that stayed unfetched
                    let mut unfetched = 0u64;
                    for &s in &g {
                        let n = u.solvs[s as usize].name;
                        if let Some(cands) = &u.pkgs[n as usize].candidates {
                            unfetched += cands.iter().filter(|x| !ds.contains(x)).count() as u64;
                        }
                    }
                    ctx.rep.add("lower-ranked-candidates-left-unfetched", unfetched);
                    if unfetched > 0 {
                        ctx.rep.nontrivial.insert(h);
                        ctx.rep.sample(|| json!({"universe": universe_text(&u), "problem": problem_text(&u, p), "fetched_dependencies": ds.iter().map(|&s| u.solv_label(s)).collect::<Vec<_>>(), "unfetched_candidates": unfetched}));
                    }
                }
            }
        }
        ctx.rep.add("events-consumed", checker.events);
        // at-most-once also when the PROVIDER fetches through the solver's cache (sort_candidates
        // querying dependencies of the solvables it sorts) while the solver's own requests are
        // pending: only the at-most-once rule is judged here (what a provider asks for on its own
        // account is not the solver's laziness)
        if h % 4 == 0 {
            let opts = SolveOpts { mode: Mode::Async(random_policy(&mut crate::gener::Rng::new(h))), pause_mask: PAUSE_ALL, ..SolveOpts::default() };
            let mut sess = Session::new(u.clone(), &opts);
            sess.prov().reentrant_sort.set(true);
            let mut vio = vec![];
            let mut chk = TraceChecker::new(&rf);
            for p in c.problems.iter().take(2) {
                ctx.rep.evaluations += 1;
                let out = sess.solve(p);
                note_outcome(ctx.rep, &out);
                if matches!(out, Outcome::Panic(_) | Outcome::Deadlock | Outcome::Budget) {
                    break;
                }
            }
            for e in &sess.log() {
                chk.feed(e, &mut vio);
            }
            ctx.rep.count("sequences-with-provider-side-cache-queries");
            for (k, d) in vio {
                if k.ends_with("called-twice") {
                    ctx.violation(format!("{k} (provider queries the cache from sort_candidates)"), d);
                }
            }
            // the same with an IMPATIENT provider: it starts dependency queries of its own, holds
            // them while other requests (of the solver, of its other concurrent sort calls) queue up
            // behind them, and then abandons them. Every waiter has to start over, and exactly one
            // of them may ask the provider again (a request the provider itself gave up is not
            // "answered"); two concurrent requests for one key are "asked twice".
            if h % 8 == 0 {
                let mut sess = Session::new(u.clone(), &opts);
                sess.prov().reentrant_sort.set(true);
                sess.prov().abandon.set(true);
                for p in c.problems.iter().take(2) {
                    ctx.rep.evaluations += 1;
                    let out = sess.solve(p);
                    note_outcome(ctx.rep, &out);
                    if matches!(out, Outcome::Panic(_) | Outcome::Deadlock | Outcome::Budget) {
                        break;
                    }
                }
                ctx.rep.count("sequences-with-an-impatient-provider");
                ctx.rep.add("re-entrant-queries-abandoned-by-the-provider", sess.prov().abandoned.get());
                for d in super::c10::duplicate_calls(&sess.log()) {
                    ctx.violation("provider asked twice (impatient provider abandons its own cache queries)", d);
                }
            }
        }
    }
}
