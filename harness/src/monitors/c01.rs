//! C01 — every returned solution is valid.
use std::rc::Rc;

use serde_json::json;

use super::*;
use crate::{
    campaign::Monitor,
    hooks,
    reference::Ref,
    report::{Ctx, Tier},
    run::{Outcome, solve_once},
};

pub struct C01;

pub const FAMILIES: &[(&str, u64)] = &[
    ("tiny", 2),
    ("tiny-hints", 2),
    ("tiny-soft", 2),
    ("tiny-hints-soft", 2),
    ("medium", 2),
    ("medium-hints", 2),
    ("conf", 3),
    ("conf-hints", 3),
    ("conf-soft", 2),
    ("lazy-soft", 2),
    ("union-conf", 1),
    ("union-conf-hints", 2),
    ("medium-soft", 2),
    ("lazy-hints", 1),
    ("deep", 2),
    ("deep-hints", 1),
    ("hostile", 2),
    ("big", 1),
    ("many", 1),
    ("many-excl", 1),
    ("many-excl-hints", 1),
    ("many-soft", 1),
    ("many-cand-soft-hints", 1),
    ("huge", 1),
    ("huge-hints", 1),
    ("hub", 1),
    ("hub-hints", 1),
];

/// Checks shared with other monitors: validity of an `Ok` result against the reference rules and
/// the hook-level invariants. Returns the number of violated rules.
pub fn check_ok(
    prefix: &str,
    rf: &Ref,
    p: &Prob,
    sol: &[u32],
    sess: &crate::run::Session,
    ctx: &mut Ctx,
    what: &str,
) -> usize {
    let mut n = 0;
    for v in rf.check(p, sol, &p.soft) {
        let rule = v.split(':').next().unwrap_or("rule").to_string();
        ctx.violation(format!("{prefix}{rule}"), format!("{what}: {v}; solution {:?}", sol));
        n += 1;
    }
    let d = sess.solver.verif_dump();
    for v in hooks::clauses_satisfied(&d, &p.soft) {
        ctx.violation(format!("{prefix}h1-clause-falsified"), format!("{what}: {v}"));
        n += 1;
    }
    for v in hooks::watch_integrity(&d) {
        ctx.violation(format!("{prefix}h1-watch-list"), format!("{what}: {v}"));
        n += 1;
    }
    for v in hooks::trail_reasons(&d) {
        ctx.violation(format!("{prefix}h1-trail"), format!("{what}: {v}"));
        n += 1;
    }
    ctx.rep.add("h1:clauses-evaluated", d.clauses.len() as u64);
    n
}

impl Monitor for C01 {
    type Case = SolverCase;
    fn id(&self) -> &'static str {
        "C01"
    }
    fn rule(&self) -> String {
        "cases = seeded random universes from families tiny/medium/conf/deep/hostile/big x hints x soft lists, each run synchronously and under 2 async schedules with random activity parameters; every Ok result is judged by the reference `valid` on the provider's own data and by the hook invariants (all clauses true, watch lists intact, trail reasons unit). distinct = content hash of (universe, problem); non-trivial = distinct case with an Ok result whose search had >= 1 conflict or restart (hook counters)".into()
    }
    fn cases(&self, tier: Tier) -> u64 {
        tier.pick(192_000, 3_840_000)
    }
    fn floor(&self, tier: Tier) -> u64 {
        tier.pick(1_200, 12_000)
    }
    fn generate(&self, r: &mut Rng, _tier: Tier, _i: u64) -> SolverCase {
        let (name, cfg) = pick_family(r, FAMILIES);
        let (name, (u, p)) = if r.chance(1, 30) { ("conflict-chain", crate::gener::conflict_chain(r)) } else if r.chance(1, 20) { ("soft-backjump", crate::gener::soft_backjump(r)) } else if r.chance(1, 20) { ("soft-learn-reject", crate::gener::soft_learn_reject(r)) } else if r.chance(1, 25) { ("soft-exempt", crate::gener::soft_exempt(r)) } else { (name, crate::gener::generate(r, &cfg)) };
        let (name, (u, p)) = if r.chance(1, 400) && !crate::report::small() {
            let perms = crate::gener::huge_perms(&u, r);
            ("huge-ids", u.renumber(&p, &perms[0], &perms[1], &perms[2], &perms[3], &perms[4]))
        } else {
            (name, (u, p))
        };
        SolverCase { family: name.into(), u, p, runs: standard_runs(r, 2) }
    }
    fn check(&self, c: &SolverCase, ctx: &mut Ctx) {
        let u = Rc::new(c.u.clone());
        let rf = Ref::new(&u);
        let h = u.content_hash(&c.p);
        ctx.rep.distinct.insert(h);
        ctx.rep.count(&format!("family:{}", c.family));
        count_features(&u, &c.p, ctx.rep);
        for (k, opts) in c.runs.iter().enumerate() {
            ctx.rep.evaluations += 1;
            let (sess, out) = solve_once(&u, &c.p, opts);
            note_outcome(ctx.rep, &out);
            if let Outcome::Ok(sol) = &out {
                let what = format!("run {k} ({:?})", opts.mode);
                check_ok("", &rf, &c.p, sol, &sess, ctx, &what);
                let hs = hook_stats(&sess);
                if hs.conflicts > 0 || hs.restarts > 0 {
                    ctx.rep.nontrivial.insert(h);
                    ctx.rep.count("ok-with-conflict-or-restart");
                }
                if hs.restarts > 0 {
                    ctx.rep.count("ok-with-restart");
                }
                ctx.rep.max("max-solution-size", sol.len() as u64);
                if k == 0 {
                    ctx.rep.sample(|| {
                        json!({"universe": universe_text(&u), "problem": problem_text(&u, &c.p),
                               "solution": sol.iter().map(|&s| u.solv_label(s)).collect::<Vec<_>>(),
                               "conflicts": hs.conflicts, "restarts": hs.restarts})
                    });
                }
            }
        }
        // "whenever solve returns a solution": also on a solver that has solved something before.
        // A quarter of the cases solve a neighbouring problem first (one requirement dropped, or the
        // hard part only), then the problem itself on the same solver.
        if h % 4 == 0 {
            let opts = &c.runs[0];
            let mut sess = crate::run::Session::new(u.clone(), opts);
            let mut first = c.p.hard();
            if first.reqs.len() > 1 && h % 8 == 0 {
                first.reqs.pop();
            }
            if h % 16 == 4 && !c.u.vsets.is_empty() {
                // an unrelated problem first: two arbitrary version sets of the universe
                let nv = c.u.vsets.len() as u64;
                first = Prob { reqs: vec![Req::Single((h / 7 % nv) as u32), Req::Single((h / 97 % nv) as u32)], cons: vec![], soft: vec![] };
            }
            let _ = sess.solve(&first);
            ctx.rep.evaluations += 1;
            let out = sess.solve(&c.p);
            note_outcome(ctx.rep, &out);
            if let Outcome::Ok(sol) = &out {
                ctx.rep.count("ok-on-a-reused-solver");
                check_ok("reused-solver:", &rf, &c.p, sol, &sess, ctx, "second solve on one solver");
            }
        }
    }
}
