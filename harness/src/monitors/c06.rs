//! C06 — same problem, same answer: results are reproducible.
use std::{collections::BTreeMap, io::Write, rc::Rc};

use serde_json::json;

use super::*;
use crate::{
    campaign::Monitor,
    gener,
    report::{Ctx, Tier},
    run::{Caught, Outcome, solve_once},
};

pub struct C06 {
    /// if set, one digest line per case is appended to this file (compared across processes)
    pub digest_file: Option<std::sync::Mutex<std::fs::File>>,
}

impl C06 {
    pub fn from_extra(extra: &BTreeMap<String, String>) -> Self {
        C06 { digest_file: extra.get("digest").map(|p| std::sync::Mutex::new(std::fs::File::create(p).expect("digest file"))) }
    }
}

pub const FAMILIES: &[(&str, u64)] = &[("conf", 4), ("conf-hints", 2), ("medium", 3), ("medium-hints", 2), ("deep", 3), ("big", 3), ("tiny", 1), ("hostile", 2), ("wide", 4)];

/// Many candidates per package and many packages per conflict: large merge groups in the
/// simplified graph, many entries in the hash sets that must be lookup-only.
fn wide(r: &mut Rng) -> (Universe, Prob) {
    let cfg = gener::GenCfg { npkg: 9, maxver: 9, maxreq: 4, p_con: 60, p_union: 15, p_unknown: 2, p_excl: 5, p_lock: 0, p_fav: 5, p_missing: 5, p_rootcon: 30, maxroot: 4, ..gener::GenCfg::tiny() };
    gener::generate(r, &cfg)
}

/// Everything observable about one solve, as text.
pub fn observable(u: &Rc<Universe>, p: &Prob, opts: &SolveOpts) -> String {
    let (sess, out) = solve_once(u, p, opts);
    match &out {
        Outcome::Ok(v) => format!("OK {:?}", v),
        Outcome::Unsat(c) => {
            let msg = match sess.render(c, 4_000_000, 4_000_000) {
                Caught::Ok((false, _, t)) => t,
                Caught::Ok((true, _, _)) => "<render over budget>".into(),
                _ => "<render failed>".into(),
            };
            let gv = match sess.graph(c) {
                Caught::Ok(g) => {
                    let a = match sess.graphviz(&g, false) { Caught::Ok(s) => s, _ => "<graphviz failed>".into() };
                    let b = match sess.graphviz(&g, true) { Caught::Ok(s) => s, _ => "<graphviz failed>".into() };
                    format!("{a}\n{b}")
                }
                _ => "<graph failed>".into(),
            };
            format!("UNSAT\n{msg}\n{gv}")
        }
        o => format!("<{}>", o.tag()),
    }
}

fn fnv(s: &str) -> u64 {
    let mut h = 0xcbf29ce484222325u64;
    for b in s.bytes() {
        h = (h ^ b as u64).wrapping_mul(0x100000001b3);
    }
    h
}

impl Monitor for C06 {
    type Case = SolverCase;
    fn id(&self) -> &'static str {
        "C06"
    }
    fn rule(&self) -> String {
        "cases = seeded universes biased to what makes hash order observable (many packages / candidates per conflict, large merge groups, Unsolvable results) solved with a non-yielding provider; (a) in-process: 3 fresh solver instances (each hash map gets its own random ahash seed) must return the identical solution vector (order included) or the identical user-friendly message and graphviz text (plain and simplified); (b) cross-process: the same cases are run in several separate processes (different ahash seeds, heap addresses, ASLR) and the per-case digests are compared by the check driver. distinct = content hash; non-trivial = distinct Unsolvable case whose message contains a merged group ('|') or Ok case with >= 4 solvables".into()
    }
    fn cases(&self, tier: Tier) -> u64 {
        tier.pick(96_000, 1_920_000)
    }
    fn floor(&self, tier: Tier) -> u64 {
        tier.pick(4_000, 40_000)
    }
    fn generate(&self, r: &mut Rng, _tier: Tier, _i: u64) -> SolverCase {
        let (name, _) = pick_family(r, FAMILIES);
        let (u, p) = if name == "wide" { wide(r) } else { gener::generate(r, &family(name)) };
        let mut opts = SolveOpts::default();
        if r.chance(1, 4) {
            opts.activity = Some(gener::activity_params(r));
        }
        SolverCase { family: name.into(), u, p, runs: vec![opts] }
    }
    fn check(&self, c: &SolverCase, ctx: &mut Ctx) {
        let u = Rc::new(c.u.clone());
        let h = u.content_hash(&c.p);
        ctx.rep.distinct.insert(h);
        ctx.rep.count(&format!("family:{}", c.family));
        let opts = &c.runs[0];
        let first = observable(&u, &c.p, opts);
        ctx.rep.evaluations += 1;
        for k in 1..3 {
            ctx.rep.evaluations += 1;
            let again = observable(&u, &c.p, opts);
            if again != first {
                let (a, b) = (first.lines().zip(again.lines()).find(|(x, y)| x != y)).map(|(x, y)| (x.to_string(), y.to_string())).unwrap_or_default();
                ctx.violation("fresh solver instances give different output for the same problem", format!("instance 0 vs {k}: first differing line: {:?} vs {:?}", a, b));
                break;
            }
        }
        if first.starts_with("UNSAT") {
            ctx.rep.count("unsolvable-messages-compared");
            if first.contains(" | ") {
                ctx.rep.count("messages-with-merged-groups");
                ctx.rep.nontrivial.insert(h);
            }
        } else if first.starts_with("OK") {
            ctx.rep.count("solutions-compared");
            if first.matches(',').count() >= 3 {
                ctx.rep.nontrivial.insert(h);
            }
        } else {
            ctx.rep.count("not-a-verdict (see C04)");
        }
        if let Some(f) = &self.digest_file {
            let mut f = f.lock().unwrap();
            let _ = writeln!(f, "{} {:016x} {}", ctx.case_seed, fnv(&first), first.lines().next().unwrap_or("").chars().take(40).collect::<String>());
        }
        if first.contains(" | ") {
            ctx.rep.sample(|| json!({"universe": universe_text(&u), "problem": problem_text(&u, &c.p), "message": first.lines().skip(1).take(12).collect::<Vec<_>>()}));
        }
    }
}
