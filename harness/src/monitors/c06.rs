//! C06 — same problem, same answer: results are reproducible.
use std::{collections::BTreeMap, io::Write, rc::Rc};

use serde_json::json;

use super::*;
use crate::{
    campaign::Monitor,
    gener,
    report::{Ctx, Tier},
    run::{Caught, Outcome, solve_once},
};

pub struct C06 {
    /// if set, one digest line per case is appended to this file (compared across processes)
    pub digest_file: Option<std::sync::Mutex<std::fs::File>>,
}

impl C06 {
    pub fn from_extra(extra: &BTreeMap<String, String>) -> Self {
        C06 { digest_file: extra.get("digest").map(|p| std::sync::Mutex::new(std::fs::File::create(p).expect("digest file"))) }
    }
}

pub const FAMILIES: &[(&str, u64)] = &[("conf", 4), ("conf-hints", 2), ("medium", 3), ("medium-hints", 2), ("deep", 3), ("big", 3), ("tiny", 1), ("hostile", 2), ("wide", 4), ("many", 2), ("many-hints", 1)];

/// Many candidates per package and many packages per conflict: large merge groups in the
/// simplified graph, many entries in the hash sets that must be lookup-only.
fn wide(r: &mut Rng) -> (Universe, Prob) {
    let cfg = gener::GenCfg { npkg: 9, maxver: 9, maxreq: 4, p_con: 60, p_union: 15, p_unknown: 2, p_excl: 5, p_lock: 0, p_fav: 5, p_missing: 5, p_rootcon: 30, maxroot: 4, ..gener::GenCfg::tiny() };
    gener::generate(r, &cfg)
}

/// Everything observable about one solve, as text.
pub fn observable(u: &Rc<Universe>, p: &Prob, opts: &SolveOpts) -> String {
    let (sess, out) = solve_once(u, p, opts);
    observable_of(&sess, &out)
}

/// Everything observable about the solve that just returned `out` on `sess`, as text.
pub fn observable_of(sess: &crate::run::Session, out: &Outcome) -> String {
    match out {
        Outcome::Ok(v) => format!("OK {:?}", v),
        Outcome::Unsat(c) => {
            let msg = match sess.render(c, 4_000_000, 4_000_000) {
                Caught::Ok((false, _, t)) => t,
                Caught::Ok((true, _, _)) => "<render over budget>".into(),
                _ => "<render failed>".into(),
            };
            let gv = match sess.graph(c) {
                Caught::Ok(g) => {
                    let a = match sess.graphviz(&g, false) { Caught::Ok(s) => s, _ => "<graphviz failed>".into() };
                    let b = match sess.graphviz(&g, true) { Caught::Ok(s) => s, _ => "<graphviz failed>".into() };
                    format!("{a}\n{b}")
                }
                _ => "<graph failed>".into(),
            };
            format!("UNSAT\n{msg}\n{gv}")
        }
        o => format!("<{}>", o.tag()),
    }
}

/// The universe captured into a serialised snapshot (seeded with everything the problem names).
fn snapshot_json(u: &Rc<Universe>, p: &Prob) -> Option<String> {
    use resolvo::{NameId, SolvableId, VersionSetId, snapshot::DependencySnapshot};
    let mut vs: Vec<u32> = p.cons.clone();
    for r in &p.reqs {
        match r {
            Req::Single(v) => vs.push(*v),
            Req::Union(un) => vs.extend(u.unions[*un as usize].iter().copied()),
        }
    }
    match crate::run::catch(|| DependencySnapshot::from_provider(Prov::new(u.clone()), std::iter::empty::<NameId>(), vs.iter().map(|&v| VersionSetId(v)), std::iter::empty::<SolvableId>())) {
        Caught::Ok(Ok(s)) => serde_json::to_string(&s).ok(),
        _ => None,
    }
}

/// Everything observable about one solve through a freshly deserialised snapshot.
fn observable_snapshot(js: &str, p: &Prob) -> String {
    use resolvo::{Problem, Solver, UnsolvableOrCancelled, VersionSetId, snapshot::DependencySnapshot};
    let r = crate::run::catch(|| {
        let snap: DependencySnapshot = serde_json::from_str(js).expect("deserialise");
        let mut prov = snap.provider();
        // root unions are rebuilt from their members in listed order
        let reqs: Vec<resolvo::Requirement> = p.reqs.iter().filter_map(|r| match r { Req::Single(v) => Some(resolvo::Requirement::Single(VersionSetId(*v))), Req::Union(_) => None }).collect();
        let _ = &mut prov;
        let mut solver = Solver::new(prov);
        match solver.solve(Problem::new().requirements(reqs).constraints(p.cons.iter().map(|&v| VersionSetId(v)).collect())) {
            Ok(v) => format!("OK {:?}", v.iter().map(|s| s.0).collect::<Vec<_>>()),
            Err(UnsolvableOrCancelled::Unsolvable(c)) => format!("UNSAT\n{}", c.display_user_friendly(&solver)),
            Err(UnsolvableOrCancelled::Cancelled(_)) => "<cancelled>".into(),
        }
    });
    match r {
        Caught::Ok(s) => s,
        Caught::Panic(p) => format!("<panic {}>", p.signature()),
        _ => "<no verdict>".into(),
    }
}

fn fnv(s: &str) -> u64 {
    let mut h = 0xcbf29ce484222325u64;
    for b in s.bytes() {
        h = (h ^ b as u64).wrapping_mul(0x100000001b3);
    }
    h
}

impl Monitor for C06 {
    type Case = SolverCase;
    fn id(&self) -> &'static str {
        "C06"
    }
    fn rule(&self) -> String {
        "cases = seeded universes biased to what makes hash order observable (many packages / candidates per conflict, large merge groups, Unsolvable results) solved with a non-yielding provider; (d) the same problem solved twice on ONE solver with every package hinting all dependencies (then the solver knows the same before both runs): both outputs and that of a fresh solver must be identical; (a) in-process: 3 fresh solver instances (each hash map gets its own random ahash seed) must return the identical solution vector (order included) or the identical user-friendly message and graphviz text (plain and simplified); (b) cross-process: the same cases are run in several separate processes (different ahash seeds, heap addresses, ASLR) and the per-case digests are compared by the check driver; (c) for a third of the cases (no favored/locked, no soft) the universe is captured into a serialised DependencySnapshot and solved through 3 freshly deserialised copies (the repository's own SnapshotProvider as the deterministic provider): identical solution vector or message, in-process and (through the digest) across processes. distinct = content hash; non-trivial = distinct Unsolvable case whose message contains a merged group ('|') or Ok case with >= 4 solvables".into()
    }
    fn cases(&self, tier: Tier) -> u64 {
        tier.pick(96_000, 1_920_000)
    }
    fn floor(&self, tier: Tier) -> u64 {
        tier.pick(4_000, 40_000)
    }
    fn generate(&self, r: &mut Rng, _tier: Tier, _i: u64) -> SolverCase {
        let (name, _) = pick_family(r, FAMILIES);
        let (u, p) = if name == "wide" { wide(r) } else { gener::generate(r, &family(name)) };
        let mut opts = SolveOpts::default();
        if r.chance(1, 4) {
            opts.activity = Some(gener::activity_params(r));
        }
        SolverCase { family: name.into(), u, p, runs: vec![opts] }
    }
    fn check(&self, c: &SolverCase, ctx: &mut Ctx) {
        let u = Rc::new(c.u.clone());
        let h = u.content_hash(&c.p);
        ctx.rep.distinct.insert(h);
        ctx.rep.count(&format!("family:{}", c.family));
        let opts = &c.runs[0];
        let first = observable(&u, &c.p, opts);
        ctx.rep.evaluations += 1;
        for k in 1..3 {
            ctx.rep.evaluations += 1;
            let again = observable(&u, &c.p, opts);
            if again != first {
                let (a, b) = (first.lines().zip(again.lines()).find(|(x, y)| x != y)).map(|(x, y)| (x.to_string(), y.to_string())).unwrap_or_default();
                ctx.violation("fresh solver instances give different output for the same problem", format!("instance 0 vs {k}: first differing line: {:?} vs {:?}", a, b));
                break;
            }
        }
        if first.starts_with("UNSAT") {
            ctx.rep.count("unsolvable-messages-compared");
            if first.contains(" | ") {
                ctx.rep.count("messages-with-merged-groups");
                ctx.rep.nontrivial.insert(h);
            }
        } else if first.starts_with("OK") {
            ctx.rep.count("solutions-compared");
            if first.matches(',').count() >= 3 {
                ctx.rep.nontrivial.insert(h);
            }
        } else {
            ctx.rep.count("not-a-verdict (see C04)");
        }
        // (c) the repository's own SnapshotProvider as the deterministic provider: one serialised
        // snapshot, deserialised afresh for every instance (fresh hash sets with fresh seeds)
        let mut snap_digest = 0u64;
        if ctx.case_seed % 3 == 0 && c.u.pkgs.iter().all(|p| p.favored.is_none() && p.locked.is_none()) && c.p.soft.is_empty() {
            if let Some(js) = snapshot_json(&u, &c.p) {
                let outs: Vec<String> = (0..3).map(|_| observable_snapshot(&js, &c.p)).collect();
                ctx.rep.evaluations += 3;
                ctx.rep.count("snapshot-provider-cases-compared");
                if outs[0].starts_with("OK") && c.u.solvs.iter().any(|s| matches!(&s.deps, Deps::Known { reqs, .. } if reqs.iter().any(|r| matches!(r, Req::Union(_))))) || c.p.reqs.iter().any(|r| matches!(r, Req::Union(_))) {
                    ctx.rep.count("snapshot-provider-cases-with-unions");
                }
                for k in 1..3 {
                    if outs[k] != outs[0] {
                        let (a, b) = (outs[0].lines().zip(outs[k].lines()).find(|(x, y)| x != y)).map(|(x, y)| (x.to_string(), y.to_string())).unwrap_or_default();
                        ctx.violation("solving through freshly deserialised copies of one snapshot gives different output", format!("copy 0 vs {k}: first differing line: {:?} vs {:?}", a, b));
                        break;
                    }
                }
                snap_digest = fnv(&outs[0]);
            }
        }
        // (d) a repeated run on ONE solver. In general a second solve may legitimately differ from
        // the first (metadata fetched by the first one is encoded eagerly, DESIGN 7.3); when every
        // package hints that all dependencies are available, what the solver knows before the first
        // and before the second solve is the same, so the second run must reproduce the first
        // output - and that of a fresh solver - exactly.
        if ctx.case_seed % 2 == 1 {
            let mut uh = c.u.clone();
            for p in &mut uh.pkgs {
                p.hint = Hint::All;
            }
            let uh = Rc::new(uh);
            let fresh = observable(&uh, &c.p, opts);
            let mut sess = crate::run::Session::new(uh.clone(), opts);
            let o1 = sess.solve(&c.p);
            let t1 = observable_of(&sess, &o1);
            let o2 = sess.solve(&c.p);
            let t2 = observable_of(&sess, &o2);
            ctx.rep.evaluations += 3;
            ctx.rep.count("repeated-runs-on-one-solver-compared (all packages hinted)");
            if t1 != fresh {
                ctx.violation("fresh solver instances give different output for the same problem", "all packages hinted: first solve of a session vs one-shot solve".to_string());
            } else if t2 != t1 && (o1.verdict().is_some() && o2.verdict().is_some()) {
                let (a, b) = (t1.lines().zip(t2.lines()).find(|(x, y)| x != y)).map(|(x, y)| (x.to_string(), y.to_string())).unwrap_or_default();
                ctx.violation("a repeated run on the same solver gives different output although the solver's knowledge is the same (all packages hinted)", format!("first differing line: {:?} vs {:?}", a, b));
            }
        }
        if let Some(f) = &self.digest_file {
            let mut f = f.lock().unwrap();
            let _ = writeln!(f, "{} {:016x}-{:016x} {}", ctx.case_seed, fnv(&first), snap_digest, first.lines().next().unwrap_or("").chars().take(40).collect::<String>());
        }
        if first.contains(" | ") {
            ctx.rep.sample(|| json!({"universe": universe_text(&u), "problem": problem_text(&u, &c.p), "message": first.lines().skip(1).take(12).collect::<Vec<_>>()}));
        }
    }
}
