//! C04 — solve and conflict rendering terminate without panicking (bounded progress).
use std::rc::Rc;

use resolvo::conflict::ConflictGraph;
use serde_json::json;

use super::*;
use crate::{
    campaign::Monitor,
    gener,
    report::{Ctx, Tier},
    run::{Caught, Outcome, Session},
};

pub struct C04;

pub const FAMILIES: &[(&str, u64)] = &[
    ("hostile", 8),
    ("hostile-hard", 2),
    ("tiny-hints-soft", 2),
    ("conf-hints", 2),
    ("conf-soft", 1),
    ("deep-hints", 1),
    ("medium-hints", 1),
    ("many-excl", 1),
    ("many-excl-hints", 1),
    ("many-soft-hints", 1),
    ("union-conf-hints", 2),
    ("many-cand-soft", 1),
    ("many-cand-soft-hints", 1),
    ("huge-hints", 1),
    ("hub-hints", 1),
    ("cyclic", 3),
];

/// Logical budget for tree renderings of a conflict graph: the number of (root path, child)
/// pairs, i.e. sum over simple root paths of (1 + out-degree of the end node), capped. Every
/// terminating tree rendering emits at most a constant number of lines per such pair, while a
/// rendering that re-expands a cycle exceeds any such bound.
pub fn path_budget(g: &ConflictGraph, cap: u64) -> u64 {
    fn dfs(
        gr: &petgraph::graph::DiGraph<resolvo::conflict::ConflictNode, resolvo::conflict::ConflictEdge>,
        n: petgraph::graph::NodeIndex,
        on: &mut Vec<bool>,
        acc: &mut u64,
        cap: u64,
    ) {
        if *acc > cap {
            return;
        }
        *acc += 1 + gr.edges(n).count() as u64;
        on[n.index()] = true;
        for e in gr.edges(n) {
            use petgraph::visit::EdgeRef;
            if !on[e.target().index()] {
                dfs(gr, e.target(), on, acc, cap);
            }
        }
        on[n.index()] = false;
    }
    let bound = g.graph.node_indices().map(|n| n.index() + 1).max().unwrap_or(0);
    let mut on = vec![false; bound];
    let mut acc = 0;
    dfs(&g.graph, g.root_node, &mut on, &mut acc, cap);
    acc
}

pub const BYTES_PER_PATH_STEP: u64 = 400;
pub const PATH_CAP: u64 = 200_000;

/// Exercise every rendering entry point for a conflict. Returns true if the graph was cyclic.
pub fn render_all(sess: &Session, conflict: &resolvo::conflict::Conflict, ctx: &mut Ctx, what: &str) -> bool {
    let g = match sess.graph(conflict) {
        Caught::Ok(g) => g,
        Caught::Panic(pi) => {
            ctx.violation(format!("panic in Conflict::graph: {}", pi.signature()), what.to_string());
            return false;
        }
        _ => {
            ctx.violation("Conflict::graph did not return", what.to_string());
            return false;
        }
    };
    let cyclic = petgraph::algo::is_cyclic_directed(&g.graph);
    if cyclic {
        ctx.rep.count("cyclic-conflict-graphs-rendered");
    }
    ctx.rep.count("conflicts-rendered");
    let budget_steps = path_budget(&g, PATH_CAP);
    if budget_steps > PATH_CAP {
        ctx.rep.inconclusive("render budget not computable (too many root paths)");
        return cyclic;
    }
    // label length matters for bytes: allow for the longest label
    let cap = (budget_steps * BYTES_PER_PATH_STEP + 4096) as usize;
    match sess.render(conflict, cap, 2000) {
        Caught::Ok((over, n, text)) => {
            ctx.rep.max("max-render-bytes", n as u64);
            if cyclic && text.contains(" | ") {
                ctx.rep.count("cyclic-conflict-graphs-rendered-with-merged-groups");
            }
            ctx.rep.max("max-render-permille-of-budget", (n as u64 * 1000) / cap as u64);
            if over {
                ctx.violation(
                    "display_user_friendly output exceeds the bound derived from the conflict graph",
                    format!("{what}: {} nodes, {} edges, cyclic={cyclic}, budget {cap} bytes; output starts: {}", g.graph.node_count(), g.graph.edge_count(), text.chars().take(600).collect::<String>()),
                );
            }
        }
        Caught::Panic(pi) => ctx.violation(format!("panic in display_user_friendly: {}", pi.signature()), what.to_string()),
        _ => ctx.violation("display_user_friendly did not return", what.to_string()),
    }
    for simplify in [false, true] {
        match sess.graphviz(&g, simplify) {
            Caught::Ok(s) => {
                let bound = (g.graph.node_count() + g.graph.edge_count() + 4) * 600;
                if s.len() > bound {
                    ctx.violation("graphviz output exceeds the bound derived from the conflict graph", format!("{what}: {} bytes > {bound}", s.len()));
                }
            }
            Caught::Panic(pi) => ctx.violation(format!("panic in graphviz(simplify={simplify}): {}", pi.signature()), what.to_string()),
            _ => ctx.violation("graphviz did not return", what.to_string()),
        }
    }
    cyclic
}

/// A universe whose unsatisfiable core is a dependency cycle (the renderer sees cycles).
pub fn cyclic_universe(r: &mut Rng) -> (Universe, Prob) {
    let mut u = Universe::default();
    let n = 2 + r.below(4) as usize;
    let names: Vec<String> = (0..n).map(|i| format!("c{i}")).collect();
    let nver = 1 + r.below(2) as u32;
    for nm in &names {
        for v in 1..=nver {
            u.solv(nm, v);
        }
    }
    u.solv("bad", 1);
    for i in 0..n {
        for v in 1..=nver {
            let s = u.solv(&names[i], v);
            let nx = u.vs(&names[(i + 1) % n], 1, nver + 1);
            u.add_req(s, Req::Single(nx));
            if r.chance(1, 3) {
                let back = u.vs(&names[(i + n - 1) % n], 1, nver + 1);
                u.add_req(s, Req::Single(back));
            }
        }
    }
    // one member of the cycle needs something unsatisfiable
    let k = r.below(n as u64) as usize;
    for v in 1..=nver {
        let s = u.solv(&names[k], v);
        let bad = match r.below(3) {
            0 => u.vs("bad", 5, 6),      // no candidates
            1 => u.vs("nonexistent", 1, 2),
            _ => {
                // conflicting constrains
                let c = u.vs(&names[(k + 1) % n], nver + 1, nver + 2);
                u.add_con(s, c);
                u.vs("bad", 1, 2)
            }
        };
        u.add_req(s, Req::Single(bad));
    }
    if r.chance(1, 2) {
        let m = u.pkg("nonexistent");
        u.pkgs[m as usize].candidates = if r.chance(1, 2) { None } else { Some(vec![]) };
    } else {
        u.pkg("nonexistent");
    }
    let root = u.vs(&names[r.below(n as u64) as usize], 1, nver + 1);
    u.finalize();
    if r.chance(1, 2) {
        for p in &mut u.pkgs {
            p.hint = Hint::All;
        }
    }
    (u, Prob { reqs: vec![Req::Single(root)], cons: vec![], soft: vec![] })
}

/// A universe in which a dependency CYCLE of packages is uninstallable under every version of a
/// selector package, for a different reason per version (one member of the cycle needs the other
/// selector version; the selector version that would allow it constrains away something another
/// member needs), so that the whole cycle ends up in the conflict. All versions of a cycle
/// package have identical dependencies (most of the time), i.e. the message shows them as merged
/// groups and the cycle runs through merged groups only.
pub fn cyclic_merged(r: &mut Rng) -> (Universe, Prob) {
    let mut u = Universe::default();
    let m = 2 + r.below(3) as usize; // cycle length
    let nv = 2 + r.below(2) as u32; // versions per cycle package
    let names: Vec<String> = (0..m).map(|i| format!("m{i}")).collect();
    let nsel = 2 + r.below(2) as u32;
    for v in 1..=nsel {
        u.solv("sel", v);
    }
    for nm in &names {
        for v in 1..=nv {
            u.solv(nm, v);
        }
    }
    for v in 1..=2 {
        u.solv("w", v);
    }
    let needs_sel = r.below(m as u64) as usize; // this member needs sel=1
    let needs_w = r.below(m as u64) as usize; // this member needs w=2
    let distinct = r.chance(1, 5); // sometimes the versions differ (no merging)
    for i in 0..m {
        for v in 1..=nv {
            let s = u.solv(&names[i], v);
            let next = u.vs(&names[(i + 1) % m], 1, nv + 1);
            if i == needs_w {
                let w2 = u.vs("w", 2, 3);
                u.add_req(s, Req::Single(w2));
            }
            u.add_req(s, Req::Single(next));
            if i == needs_sel {
                let s1 = u.vs("sel", 1, 2);
                u.add_req(s, Req::Single(s1));
            }
            if distinct && v == 1 {
                let any_w = u.vs("w", 1, 3);
                u.add_req(s, Req::Single(any_w));
            }
        }
    }
    // sel=1 allows the member that needs it but rules out w=2; the other versions enter the cycle
    // somewhere and can never have the member that needs sel=1
    let sel1 = u.solv("sel", 1);
    let w1 = u.vs("w", 1, 2);
    u.add_con(sel1, w1);
    let entry1 = u.vs(&names[r.below(m as u64) as usize], 1, nv + 1);
    u.add_req(sel1, Req::Single(entry1));
    for v in 2..=nsel {
        let s = u.solv("sel", v);
        let entry = u.vs(&names[r.below(m as u64) as usize], 1, nv + 1);
        u.add_req(s, Req::Single(entry));
    }
    let root = u.vs("sel", 1, nsel + 1);
    u.finalize();
    match r.below(3) {
        0 => {
            for p in &mut u.pkgs {
                p.hint = Hint::All;
            }
        }
        1 => {
            for p in &mut u.pkgs {
                p.hint = if r.chance(1, 2) { Hint::All } else { Hint::None };
            }
        }
        _ => {}
    }
    (u, Prob { reqs: vec![Req::Single(root)], cons: vec![], soft: vec![] })
}

/// Everything C04 does for one case, used for the hand-written corpus too.
fn exercise(c: &SolverCase, ctx: &mut Ctx) {
    C04.check(c, ctx)
}

impl Monitor for C04 {
    type Case = SolverCase;
    fn id(&self) -> &'static str {
        "C04"
    }
    fn rule(&self) -> String {
        "cases = seeded hostile universes (hints x exclusions x locks x soft lists with excluded / locked-out / Unknown / unrequested solvables x self requirements and self constrains x duplicate requirements x empty version sets x missing packages) and cyclic unsatisfiable cores; each case is solved synchronously and under an async schedule, then solved AGAIN on the same solver (already-fetched metadata), and every Unsolvable result is rendered through Conflict::graph, graphviz (plain and simplified) and display_user_friendly. Panics are caught per API call (signature = site + message); termination is decided logically: solve by a provider-step budget, rendering by a byte budget derived from the number of simple root paths of the returned graph. The campaign is run in two builds (release, and release with debug assertions). distinct = content hash; non-trivial = distinct case with >= 2 hostile features present".into()
    }
    fn cases(&self, tier: Tier) -> u64 {
        tier.pick(320_000, 6_400_000)
    }
    fn floor(&self, tier: Tier) -> u64 {
        tier.pick(8_000, 80_000)
    }
    fn generate(&self, r: &mut Rng, _tier: Tier, _i: u64) -> SolverCase {
        let (name, _) = pick_family(r, &FAMILIES[..FAMILIES.len() - 1]);
        let pick_cyclic = r.chance(3, 20);
        let (name, (u, p)) = if pick_cyclic {
            if r.chance(1, 3) { ("cyclic-merged", cyclic_merged(r)) } else { ("cyclic", cyclic_universe(r)) }
        } else if gener::shaped_enabled() && r.chance(1, 40) {
            ("conflict-chain", gener::conflict_chain(r))
        } else if gener::shaped_enabled() && r.chance(1, 10) {
            ("soft-backjump", gener::soft_backjump(r))
        } else if gener::shaped_enabled() && r.chance(1, 12) {
            ("soft-learn-reject", gener::soft_learn_reject(r))
        } else {
            (name, gener::generate(r, &family(name)))
        };
        let mut runs = vec![SolveOpts::default(), async_opts(r)];
        if r.chance(1, 3) {
            runs[0].activity = Some(gener::activity_params(r));
        }
        SolverCase { family: name.into(), u, p, runs }
    }
    fn fixed(&self, _tier: Tier, shard: u64, _nshards: u64, ctx: &mut Ctx) {
        if shard != 0 {
            return;
        }
        let mut r = Rng::new(7);
        for e in crate::corpus::all() {
            let case = SolverCase { family: format!("corpus: {}", e.name), u: e.u, p: e.p, runs: vec![SolveOpts::default(), async_opts(&mut r)] };
            let before = ctx.pending.len();
            exercise(&case, ctx);
            for v in ctx.pending.iter_mut().skip(before) {
                v.1 = format!("corpus case '{}': {}", case.family, v.1);
            }
            ctx.rep.count("corpus-cases");
        }
    }
    fn check(&self, c: &SolverCase, ctx: &mut Ctx) {
        let u = Rc::new(c.u.clone());
        let h = u.content_hash(&c.p);
        ctx.rep.distinct.insert(h);
        ctx.rep.count(&format!("family:{}", c.family.split(':').next().unwrap_or("")));
        let nfeat = count_features(&u, &c.p, ctx.rep);
        if nfeat >= 2 || c.family == "cyclic" {
            ctx.rep.nontrivial.insert(h);
        }
        for (k, opts) in c.runs.iter().enumerate() {
            let mut sess = Session::new(u.clone(), opts);
            // two solves on the same solver: the second one sees already fetched metadata
            for round in 0..2 {
                ctx.rep.evaluations += 1;
                let what = format!("run {k} ({:?}) solve #{round}", opts.mode);
                let out = sess.solve(&c.p);
                note_outcome(ctx.rep, &out);
                ctx.rep.max("max-provider-steps", sess.prov().steps.get());
                match &out {
                    Outcome::Ok(_) => {}
                    Outcome::Unsat(conflict) => {
                        if round == 0 && (h ^ k as u64) % 2 == 0 {
                            // a provider whose cancellation signal turns on after solve returned (a
                            // deadline that expires between solving and reporting): the FIRST
                            // rendering on this solver (nothing rendering-specific cached yet) must not care
                            let before = sess.prov().cancel.get();
                            sess.prov().cancel.set(Cancel::Sticky(0));
                            render_all(&sess, conflict, ctx, &format!("{what}, cancellation signalled after solve returned"));
                            sess.prov().cancel.set(before);
                            ctx.rep.count("conflicts-rendered-under-a-late-cancellation-signal");
                        }
                        let cyc = render_all(&sess, conflict, ctx, &what);
                        if cyc && round == 0 {
                            ctx.rep.sample(|| json!({"cyclic_conflict": true, "universe": universe_text(&u), "problem": problem_text(&u, &c.p)}));
                        }
                    }
                    Outcome::Cancelled(_) => ctx.violation("solve returned Cancelled without a cancellation signal", what.clone()),
                    Outcome::Panic(pi) => ctx.violation(format!("panic in solve: {}", pi.signature()), what.clone()),
                    Outcome::Deadlock => ctx.violation("solve waits forever (deadlock under the manual executor)", what.clone()),
                    Outcome::Budget => ctx.violation("solve exceeded its provider-step budget", what.clone()),
                }
                if matches!(out, Outcome::Panic(_) | Outcome::Deadlock | Outcome::Budget) {
                    break;
                }
            }
        }
        if c.family == "hostile" {
            ctx.rep.sample(|| json!({"universe": universe_text(&u), "problem": problem_text(&u, &c.p)}));
        }
    }
}
