//! C17 — the C++ binding computes what the Rust API computes (Rust side of the differential).
use std::{collections::BTreeMap, fmt::Write as _, rc::Rc};

use serde_json::json;

use super::*;
use crate::{
    campaign::Monitor,
    gener,
    report::{Ctx, Tier},
    run::{Caught, Outcome, solve_once},
};

pub struct C17 {
    pub export: Option<std::sync::Mutex<(std::fs::File, std::fs::File)>>,
}

impl C17 {
    pub fn from_extra(extra: &BTreeMap<String, String>) -> Self {
        C17 {
            export: extra.get("export").map(|p| {
                std::sync::Mutex::new((
                    std::fs::File::create(p).expect("export file"),
                    std::fs::File::create(format!("{p}.expect")).expect("expect file"),
                ))
            }),
        }
    }
}

pub const FAMILIES: &[(&str, u64)] = &[("tiny", 2), ("tiny-hints", 2), ("tiny-hints-soft", 3), ("medium-hints", 2), ("conf", 2), ("conf-soft", 2), ("lazy-hints", 1), ("hostile", 3), ("deep", 1)];

/// Line based serialisation of a universe + problem, read by /verif/cpp/diff_driver.cpp.
pub fn export_universe(u: &Universe, p: &Prob, out: &mut String) {
    writeln!(out, "U {} {} {} {} {}", u.pkgs.len(), u.solvs.len(), u.vsets.len(), u.unions.len(), u.strings.len()).unwrap();
    for (i, pk) in u.pkgs.iter().enumerate() {
        let c = pk.candidates.clone().unwrap_or_default();
        write!(out, "P {} {} {} {} {} {}", i, pk.name, pk.candidates.is_none() as u8, pk.favored.map_or(-1, |x| x as i64), pk.locked.map_or(-1, |x| x as i64), c.len()).unwrap();
        for s in &c {
            write!(out, " {s}").unwrap();
        }
        write!(out, " {}", pk.excluded.len()).unwrap();
        for (s, r) in &pk.excluded {
            write!(out, " {s} {r}").unwrap();
        }
        let hint: Vec<u32> = match &pk.hint {
            Hint::None => vec![],
            Hint::All => c.clone(),
            Hint::Some(v) => v.clone(),
        };
        write!(out, " {}", hint.len()).unwrap();
        for s in &hint {
            write!(out, " {s}").unwrap();
        }
        writeln!(out).unwrap();
    }
    for (i, s) in u.solvs.iter().enumerate() {
        let (reqs, cons) = match &s.deps {
            Deps::Known { reqs, cons } => (reqs.clone(), cons.clone()),
            Deps::Unknown(_) => (vec![], vec![]),
        };
        write!(out, "S {} {} {} {} {}", i, s.name, s.ver, s.rank, reqs.len()).unwrap();
        for r in &reqs {
            match r {
                Req::Single(v) => write!(out, " 0 {v}").unwrap(),
                Req::Union(x) => write!(out, " 1 {x}").unwrap(),
            }
        }
        write!(out, " {}", cons.len()).unwrap();
        for v in &cons {
            write!(out, " {v}").unwrap();
        }
        writeln!(out).unwrap();
    }
    for (i, v) in u.vsets.iter().enumerate() {
        write!(out, "V {} {} {} {}", i, v.name, v.label.replace(' ', "_"), v.matching.len()).unwrap();
        for m in &v.matching {
            write!(out, " {m}").unwrap();
        }
        writeln!(out).unwrap();
    }
    for (i, un) in u.unions.iter().enumerate() {
        write!(out, "N {} {}", i, un.len()).unwrap();
        for v in un {
            write!(out, " {v}").unwrap();
        }
        writeln!(out).unwrap();
    }
    for (i, s) in u.strings.iter().enumerate() {
        writeln!(out, "T {} {}", i, s.replace(' ', "_")).unwrap();
    }
    write!(out, "R {}", p.reqs.len()).unwrap();
    for r in &p.reqs {
        match r {
            Req::Single(v) => write!(out, " 0 {v}").unwrap(),
            Req::Union(x) => write!(out, " 1 {x}").unwrap(),
        }
    }
    write!(out, " {}", p.cons.len()).unwrap();
    for v in &p.cons {
        write!(out, " {v}").unwrap();
    }
    write!(out, " {}", p.soft.len()).unwrap();
    for v in &p.soft {
        write!(out, " {v}").unwrap();
    }
    writeln!(out).unwrap();
}

/// The C++ interface cannot express Unknown dependencies, empty unions are fine; make a
/// universe expressible (and mirror what the bridge does: hints become an explicit list).
pub fn make_expressible(u: &mut Universe) {
    // the C++ drivers' filter_candidates keeps the order of its input
    u.filter_order = 0;
    for s in &mut u.solvs {
        if matches!(s.deps, Deps::Unknown(_)) {
            s.deps = Deps::Known { reqs: vec![], cons: vec![] };
        }
    }
    for p in &mut u.pkgs {
        p.hint = match (&p.hint, &p.candidates) {
            (Hint::All, Some(c)) => Hint::Some(c.clone()),
            (Hint::All, None) => Hint::None,
            (h, _) => h.clone(),
        };
        p.name = p.name.replace(' ', "_");
    }
    for s in &mut u.strings {
        *s = s.replace(' ', "_");
    }
    for v in &mut u.vsets {
        v.label = v.label.replace(' ', "_");
    }
}

impl Monitor for C17 {
    type Case = SolverCase;
    fn id(&self) -> &'static str {
        "C17"
    }
    fn rule(&self) -> String {
        "programs = seeded universes expressible through the C++ DependencyProvider interface (favored / locked pointers, hint lists, exclusions, unions, root constraints, soft requirements, missing packages); the Rust API result (solution vector in order, or the full display_user_friendly text) is written next to a line-based export of the universe; the C++ differential driver implements resolvo::DependencyProvider over the export, calls resolvo::solve and prints its result, which is compared line by line. distinct = content hash; non-trivial = distinct universe that uses >= 2 of {hints, exclusions, locks, favored, unions, soft, constraints}".into()
    }
    fn cases(&self, tier: Tier) -> u64 {
        tier.pick(8_000, 160_000)
    }
    fn floor(&self, tier: Tier) -> u64 {
        tier.pick(800, 8_000)
    }
    fn generate(&self, r: &mut Rng, _tier: Tier, _i: u64) -> SolverCase {
        let (name, cfg) = pick_family(r, FAMILIES);
        let (mut u, p) = gener::generate(r, &cfg);
        // candidate lists in another order than the ids, and rank ties (the order of the list is
        // the input order of filter_candidates / sort_candidates, a stable sort keeps it for ties)
        if r.chance(1, 2) {
            u = gener::permute_candidates(&u, r);
        }
        if r.chance(1, 3) {
            for s in &mut u.solvs {
                s.rank /= 2;
            }
        }
        make_expressible(&mut u);
        // the C++ driver's filter_candidates keeps the order of its input
        u.filter_order = 0;
        SolverCase { family: name.into(), u, p, runs: vec![SolveOpts::default()] }
    }
    fn check(&self, c: &SolverCase, ctx: &mut Ctx) {
        let u = Rc::new(c.u.clone());
        let h = u.content_hash(&c.p);
        ctx.rep.distinct.insert(h);
        ctx.rep.evaluations += 1;
        let nfeat = count_features(&u, &c.p, ctx.rep);
        let (sess, out) = solve_once(&u, &c.p, &c.runs[0]);
        let line = match &out {
            Outcome::Ok(v) => format!("OK{}", v.iter().map(|s| format!(" {s}")).collect::<String>()),
            Outcome::Unsat(conflict) => match sess.render(conflict, 400_000, 400_000) {
                Caught::Ok((false, _, text)) => format!("ERR {}", text.replace('\n', "\\n")),
                _ => {
                    ctx.rep.count("skipped: rust side could not render (see C04)");
                    return;
                }
            },
            _ => {
                ctx.rep.count("skipped: rust side gave no verdict (see C04)");
                return;
            }
        };
        if nfeat >= 2 {
            ctx.rep.nontrivial.insert(h);
        }
        ctx.rep.count("programs-exported");
        if let Some(f) = &self.export {
            let mut text = String::new();
            export_universe(&u, &c.p, &mut text);
            writeln!(text, "# {}", ctx.case_seed).unwrap();
            let mut f = f.lock().unwrap();
            use std::io::Write;
            f.0.write_all(text.as_bytes()).expect("write export");
            writeln!(f.1, "{} {}", ctx.case_seed, line).expect("write expect");
        }
        ctx.rep.sample(|| json!({"universe": universe_text(&u), "problem": problem_text(&u, &c.p), "rust_result": line.chars().take(300).collect::<String>()}));
    }
}
