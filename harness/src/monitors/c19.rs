//! C19 — Mapping behaves as a map from ids to values, including iteration and serde.
use std::collections::BTreeMap;

use resolvo::{Mapping, NameId};
use serde::{Deserialize, Serialize};
use serde_json::json;

use super::*;
use crate::{
    campaign::Monitor,
    report::{Ctx, Tier},
    run::{Caught, catch},
};

pub struct C19;

#[derive(Clone, Debug, Serialize, Deserialize)]
pub enum Op {
    Insert(u32, u32),
    Unset(u32),
    Get(u32),
    Serde,
}

#[derive(Clone, Debug, Serialize, Deserialize)]
pub struct C19Case {
    pub capacity: Option<usize>,
    pub ops: Vec<Op>,
}

fn value_of(v: u32) -> String {
    format!("value-{v}-{}", "p".repeat((v % 31) as usize))
}

impl Monitor for C19 {
    type Case = C19Case;
    fn id(&self) -> &'static str {
        "C19"
    }
    fn rule(&self) -> String {
        "cases = seeded sequences of insert / unset / get / serde-round-trip on Mapping<NameId, String> (heap values) with id distributions dense, sparse (gaps), around multiples of 128, > 1000, re-insert after unset, created by default() or with_capacity(n); after EVERY operation get (for touched and untouched ids), len, is_empty and the complete iter() output (content, ascending order, each pair once) are compared with a BTreeMap reference; serde_json round trips must reproduce the contents. distinct = hash of the operation list; non-trivial = sequence in which iter() was compared while the mapping had a gap (some id below the maximum absent)".into()
    }
    fn cases(&self, tier: Tier) -> u64 {
        tier.pick(80_000, 1_600_000)
    }
    fn floor(&self, tier: Tier) -> u64 {
        tier.pick(10_000, 100_000)
    }
    fn generate(&self, r: &mut Rng, _tier: Tier, _i: u64) -> C19Case {
        let small = crate::report::small();
        let dist = if small { [0u64, 1, 2, 4][r.below(4) as usize] } else { r.below(5) };
        let len = 1 + r.below(if small { 24 } else { 60 }) as usize;
        let pick = |r: &mut Rng| -> u32 {
            match dist {
                0 => r.below(12) as u32,
                1 => r.below(300) as u32,
                2 => (r.below(if small { 2 } else { 4 }) * 128 + 126 + r.below(5)) as u32,
                3 => r.below(5000) as u32,
                _ => [0u32, 1, 5, 127, 128, 129, 200, 255, 256, 1000, 1279, 1280][r.below(if small { 9 } else { 12 }) as usize],
            }
        };
        let mut ops = vec![];
        for _ in 0..len {
            ops.push(match r.below(10) {
                0..=4 => Op::Insert(pick(r), r.below(1000) as u32),
                5..=6 => Op::Unset(pick(r)),
                7..=8 => Op::Get(pick(r)),
                _ => Op::Serde,
            });
        }
        let capacity = match r.below(3) {
            0 => None,
            1 => Some(r.below(4) as usize),
            _ => Some(100 + r.below(if small { 100 } else { 400 }) as usize),
        };
        C19Case { capacity, ops }
    }
    fn check(&self, c: &C19Case, ctx: &mut Ctx) {
        use std::hash::{Hash, Hasher};
        let mut hh = std::collections::hash_map::DefaultHasher::new();
        format!("{:?}{:?}", c.capacity, c.ops).hash(&mut hh);
        let h = hh.finish();
        ctx.rep.distinct.insert(h);
        ctx.rep.evaluations += 1;
        let mut vio: Vec<(String, String)> = vec![];
        let mut gap_seen = false;
        let mut iter_checks = 0u64;
        let r = catch(|| {
            let mut m: Mapping<NameId, String> = match c.capacity {
                None => Mapping::default(),
                Some(n) => Mapping::with_capacity(n),
            };
            let mut model: BTreeMap<u32, String> = BTreeMap::new();
            let mut bad = |k: &str, d: String| {
                if vio.len() < 10 {
                    vio.push((k.to_string(), d));
                }
            };
            for (i, op) in c.ops.iter().enumerate() {
                match op {
                    Op::Insert(id, v) => {
                        let prev = m.insert(NameId(*id), value_of(*v));
                        let mprev = model.insert(*id, value_of(*v));
                        if prev != mprev {
                            bad("insert returned a different previous value than the reference map", format!("op {i}: id {id}: {:?} vs {:?}", prev, mprev));
                        }
                    }
                    Op::Unset(id) => {
                        let prev = m.unset(NameId(*id));
                        let mprev = model.remove(id);
                        if prev != mprev {
                            bad("unset returned a different previous value than the reference map", format!("op {i}: id {id}: {:?} vs {:?}", prev, mprev));
                        }
                    }
                    Op::Get(id) => {
                        if m.get(NameId(*id)) != model.get(id) {
                            bad("get disagrees with the reference map", format!("op {i}: id {id}: {:?} vs {:?}", m.get(NameId(*id)), model.get(id)));
                        }
                        if let Some(v) = m.get_mut(NameId(*id)) {
                            v.push('!');
                            model.get_mut(id).map(|x| x.push('!'));
                        }
                    }
                    Op::Serde => match (if i % 2 == 0 { serde_json::to_string(&m) } else { serde_json::to_value(&m).map(|v| v.to_string()) }) {
                        Err(e) => bad("mapping cannot be serialised", e.to_string()),
                        Ok(js) => match (if i % 3 == 0 { serde_json::from_str::<serde_json::Value>(&js).and_then(serde_json::from_value::<Mapping<NameId, String>>) } else { serde_json::from_str::<Mapping<NameId, String>>(&js) }) {
                            Err(e) => bad("serialised mapping cannot be deserialised", e.to_string()),
                            Ok(m2) => {
                                let via_get: BTreeMap<u32, String> = (0..=model.keys().max().copied().unwrap_or(0) + 2).filter_map(|k| m2.get(NameId(k)).map(|v| (k, v.clone()))).collect();
                                if via_get != model || m2.len() != model.len() {
                                    bad("serde round trip changes the contents", format!("op {i}: {:?} (len {}) vs {:?}", via_get.keys().collect::<Vec<_>>(), m2.len(), model.keys().collect::<Vec<_>>()));
                                }
                                let it: Vec<(u32, String)> = m2.iter().map(|(k, v)| (k.0, v.clone())).collect();
                                if it != model.iter().map(|(k, v)| (*k, v.clone())).collect::<Vec<_>>() {
                                    bad("iter() after a serde round trip differs from the reference map", format!("op {i}: {:?} vs {:?}", it.iter().map(|x| x.0).collect::<Vec<_>>(), model.keys().collect::<Vec<_>>()));
                                }
                            }
                        },
                    },
                }
                if m.len() != model.len() {
                    bad("len disagrees with the reference map", format!("op {i}: {} vs {}", m.len(), model.len()));
                }
                if m.is_empty() != model.is_empty() {
                    bad("is_empty disagrees with the reference map", format!("op {i}"));
                }
                let it: Vec<(u32, &String)> = m.iter().map(|(k, v)| (k.0, v)).collect();
                let mi: Vec<(u32, &String)> = model.iter().map(|(k, v)| (*k, v)).collect();
                iter_checks += 1;
                if let Some(&mx) = model.keys().max() {
                    if (model.len() as u32) < mx + 1 {
                        gap_seen = true;
                    }
                }
                // other ways of consuming the iterator: partially by next()/nth(), the rest through
                // fold-based consumers (for_each, count, last, collect into a map)
                if i % 3 == 0 {
                    let mut part = m.iter();
                    let mut mpart = model.iter();
                    let skip = (i / 3) % 4;
                    let mut same = true;
                    if skip > 0 {
                        same &= part.next().map(|(k, v)| (k.0, v.clone())) == mpart.next().map(|(k, v)| (*k, v.clone()));
                    }
                    if skip > 1 {
                        same &= part.nth(skip - 2).map(|(k, v)| (k.0, v.clone())) == mpart.nth(skip - 2).map(|(k, v)| (*k, v.clone()));
                    }
                    let (lo, hi) = part.size_hint();
                    let mut rest: Vec<(u32, String)> = vec![];
                    part.for_each(|(k, v)| rest.push((k.0, v.clone())));
                    let mrest: Vec<(u32, String)> = mpart.map(|(k, v)| (*k, v.clone())).collect();
                    if !same || rest != mrest {
                        bad("iter() consumed partially and then through for_each differs from the reference map", format!("op {i}: skipped {skip}: {:?} vs {:?}", rest.iter().map(|x| x.0).collect::<Vec<_>>(), mrest.iter().map(|x| x.0).collect::<Vec<_>>()));
                    }
                    if lo > mrest.len() || hi.is_some_and(|h| h < mrest.len()) {
                        bad("iter().size_hint() excludes the true number of remaining pairs", format!("op {i}: ({lo}, {hi:?}) but {} remain", mrest.len()));
                    }
                    if m.iter().count() != model.len() || m.iter().last().map(|(k, _)| k.0) != model.keys().last().copied() {
                        bad("iter().count() / last() disagree with the reference map", format!("op {i}"));
                    }
                    let as_map: std::collections::HashMap<u32, String> = m.iter().skip(skip.min(1)).map(|(k, v)| (k.0, v.clone())).collect();
                    let mmap: std::collections::HashMap<u32, String> = model.iter().skip(skip.min(1)).map(|(k, v)| (*k, v.clone())).collect();
                    if as_map != mmap {
                        bad("iter() collected into a map differs from the reference map", format!("op {i}"));
                    }
                }
                if it != mi {
                    bad("iter() differs from the reference map", format!("op {i}: yields ids {:?}, reference {:?}", it.iter().map(|x| x.0).collect::<Vec<_>>(), mi.iter().map(|x| x.0).collect::<Vec<_>>()));
                }
                // untouched neighbours
                for probe in [0u32, 127, 128, 129, 6000] {
                    if m.get(NameId(probe)) != model.get(&probe) {
                        bad("get of an untouched id disagrees with the reference map", format!("op {i}: id {probe}"));
                    }
                }
            }
        });
        // value types whose values can serialise as `null` (Option<T>, ()): same history, one round
        // trip at the end (known finding, see known_findings.json / DESIGN 7.1)
        if c.ops.iter().any(|o| matches!(o, Op::Serde)) {
            let r2 = catch(|| {
                let mut m: Mapping<NameId, Option<u32>> = Mapping::default();
                let mut model: BTreeMap<u32, Option<u32>> = BTreeMap::new();
                for op in &c.ops {
                    match op {
                        Op::Insert(id, v) => {
                            let val = if v % 4 == 0 { None } else { Some(*v) };
                            m.insert(NameId(*id), val);
                            model.insert(*id, val);
                        }
                        Op::Unset(id) => {
                            m.unset(NameId(*id));
                            model.remove(id);
                        }
                        _ => {}
                    }
                }
                let js = serde_json::to_string(&m).ok()?;
                let m2: Mapping<NameId, Option<u32>> = serde_json::from_str(&js).ok()?;
                let back: BTreeMap<u32, Option<u32>> = m2.iter().map(|(k, v)| (k.0, *v)).collect();
                Some((back, model))
            });
            if let Caught::Ok(Some((back, model))) = r2 {
                ctx.rep.count("null-valued-round-trips");
                if back != model {
                    let lost: Vec<u32> = model.keys().filter(|k| !back.contains_key(k)).copied().collect();
                    let only_null_lost = lost.iter().all(|k| model[k].is_none()) && back.iter().all(|(k, v)| model.get(k) == Some(v));
                    if only_null_lost {
                        ctx.violation("serde round trip loses entries whose value serialises as null", format!("Mapping<NameId, Option<u32>>: ids {:?} hold None and are absent after the round trip", lost));
                    } else {
                        ctx.violation("serde round trip changes the contents (Option-valued mapping)", format!("{:?} vs {:?}", back, model));
                    }
                }
            }
        }
        match r {
            Caught::Ok(()) => {}
            Caught::Panic(pi) => ctx.violation(format!("panic in mapping operation: {}", pi.signature()), String::new()),
            _ => ctx.violation("mapping operation did not return", String::new()),
        }
        for (k, d) in vio {
            ctx.violation(k, d);
        }
        ctx.rep.add("operations", c.ops.len() as u64);
        ctx.rep.add("iter-comparisons", iter_checks);
        if gap_seen {
            ctx.rep.nontrivial.insert(h);
            ctx.rep.count("sequences-with-gaps");
        }
        ctx.rep.sample(|| json!({"capacity": c.capacity, "ops": c.ops.iter().take(15).map(|o| format!("{:?}", o)).collect::<Vec<_>>()}));
    }
}
