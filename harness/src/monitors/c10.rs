//! C10 — any completion order of asynchronous metadata requests gives a correct result.
use std::{collections::BTreeMap, rc::Rc};

use serde::{Deserialize, Serialize};
use serde_json::json;

use super::*;
use crate::{
    campaign::Monitor,
    gener,
    reference::Ref,
    report::{Ctx, Tier},
    run::{Outcome, Session, solve_once},
    sched::Policy,
};

pub struct C10;

#[derive(Clone, Debug, Serialize, Deserialize)]
pub struct C10Case {
    pub family: String,
    pub u: Universe,
    pub p: Prob,
    pub pause_mask: u8,
    pub policies: Vec<Policy>,
    /// enumerate the whole schedule tree (tiny universes only)
    pub exhaustive: bool,
    pub activity: Option<(f32, f32)>,
}

pub const FAMILIES: &[(&str, u64)] = &[("tiny", 3), ("tiny-hints", 3), ("tiny-soft", 1), ("medium", 2), ("medium-hints", 2), ("conf", 2), ("conf-hints", 2), ("lazy-hints", 1), ("deep-hints", 1), ("huge-hints", 1), ("hub-hints", 1), ("many-soft-hints", 1), ("union-conf-hints", 2)];

/// Duplicate provider calls in a log (within one solver): a call for something the provider has
/// already answered, or for something that was already asked in this log - unless the PROVIDER
/// itself gave that earlier call up (it abandoned a re-entrant cache query of its own, see
/// `Ev::ProviderDrops`). A request the solver drops and issues again is "asked twice".
pub fn duplicate_calls(log: &[Ev]) -> Vec<String> {
    let mut open: BTreeMap<String, ()> = BTreeMap::new();
    let mut answered: BTreeMap<String, ()> = BTreeMap::new();
    let mut dup: BTreeMap<String, u32> = BTreeMap::new();
    let mut provider_drops = false;
    for e in log {
        match e {
            Ev::CandCall(_) | Ev::DepsCall(_) => {
                let k = format!("{:?}", e);
                if answered.contains_key(&k) || open.insert(k.clone(), ()).is_some() {
                    *dup.entry(k).or_insert(1) += 1;
                }
            }
            Ev::CandRet(n) => {
                let k = format!("{:?}", Ev::CandCall(*n));
                open.remove(&k);
                answered.insert(k, ());
            }
            Ev::DepsRet(n) => {
                let k = format!("{:?}", Ev::DepsCall(*n));
                open.remove(&k);
                answered.insert(k, ());
            }
            Ev::ProviderDrops(b) => provider_drops = *b,
            Ev::CandDropped(n) if provider_drops => {
                open.remove(&format!("{:?}", Ev::CandCall(*n)));
            }
            Ev::DepsDropped(n) if provider_drops => {
                open.remove(&format!("{:?}", Ev::DepsCall(*n)));
            }
            _ => {}
        }
    }
    dup.into_iter().map(|(k, c)| format!("{k} x{c}")).collect()
}

/// Judge one asynchronous run against the synchronous verdict.
pub fn judge_async(
    u: &Rc<Universe>,
    rf: &Ref,
    p: &Prob,
    sync_verdict: Option<bool>,
    sess: &Session,
    out: &Outcome,
    ctx: &mut Ctx,
    what: &str,
) {
    match out {
        Outcome::Deadlock => ctx.violation("deadlock: solver future pending with no provider future outstanding", what.to_string()),
        Outcome::Panic(pi) => ctx.violation(format!("panic under async schedule: {}", pi.signature()), what.to_string()),
        Outcome::Budget => ctx.violation("solve exceeded its provider-step budget under async schedule", what.to_string()),
        Outcome::Cancelled(_) => ctx.violation("cancelled without signal", what.to_string()),
        Outcome::Ok(sol) => {
            if sync_verdict == Some(false) {
                ctx.violation("verdict differs from synchronous run", format!("{what}: async Ok, sync Unsolvable"));
            }
            super::c01::check_ok("async-invalid:", rf, p, sol, sess, ctx, what);
        }
        Outcome::Unsat(_) => {
            if sync_verdict == Some(true) {
                ctx.violation("verdict differs from synchronous run", format!("{what}: async Unsolvable, sync Ok"));
            }
        }
    }
    let log = sess.log();
    for d in duplicate_calls(&log) {
        ctx.violation("provider asked twice", format!("{what}: {d}"));
    }
    let _ = u;
}

impl Monitor for C10 {
    type Case = C10Case;
    fn id(&self) -> &'static str {
        "C10"
    }
    fn rule(&self) -> String {
        "cases = seeded universes (with and without hints, soft lists) solved under the manual single-thread executor: every provider future parks and exactly one is released per step, chosen by policy (seeded random x4, oldest, newest, candidates-first, dependencies-first); a third of the cases is additionally run with helper THREADS completing the provider futures after random delays, so that wakers fire from other threads while the solver thread polls or is parked; pauses at get_candidates / get_dependencies and, per case, also filter_candidates / sort_candidates. Oracle per run: no deadlock (solver pending with nothing parked), no panic, verdict == synchronous verdict, solution valid (reference + hook invariants), no repeated get_candidates(name) / get_dependencies(solvable). A third of the cases is also run with a provider whose sort_candidates queries the SolverCache re-entrantly (dependencies of the solvables being sorted, other version sets) while every callback suspends, so that provider-initiated requests race with the encoder's own. For tiny universes the complete schedule tree is enumerated (exhaustive subset, counted separately). distinct = content hash; non-trivial = distinct case with >= 2 futures parked simultaneously at some quiescent point".into()
    }
    fn cases(&self, tier: Tier) -> u64 {
        tier.pick(42_000, 840_000)
    }
    fn floor(&self, tier: Tier) -> u64 {
        tier.pick(2_000, 20_000)
    }
    fn generate(&self, r: &mut Rng, _tier: Tier, i: u64) -> C10Case {
        // under Miri (small mode) a schedule tree of thousands of solves would take hours
        let small = crate::report::small();
        let exhaustive = i % 10 == 0 && !small;
        let (name, mut cfg) = pick_family(r, FAMILIES);
        if exhaustive {
            cfg.npkg = 3;
            cfg.maxver = 2;
            cfg.maxreq = 2;
        }
        let (name, (u, p)) = if !exhaustive && r.chance(1, 40) { ("wide-union", gener::wide_union(r)) } else { (name, gener::generate(r, &cfg)) };
        let mut policies = vec![Policy::Oldest, Policy::Newest, Policy::CandsFirst, Policy::DepsFirst];
        for _ in 0..4 {
            policies.push(Policy::Random(r.next()));
        }
        // one run in which helper threads complete the provider futures (cross-thread wake-ups)
        if r.chance(1, 3) {
            policies.push(Policy::Threads(r.next()));
        }
        if small {
            policies.truncate(2);
            policies.push(Policy::Random(r.next()));
        }
        C10Case { family: name.into(), u, p, pause_mask: random_pause_mask(r), policies, exhaustive, activity: if r.chance(1, 4) { Some(gener::activity_params(r)) } else { None } }
    }
    fn check(&self, c: &C10Case, ctx: &mut Ctx) {
        let u = Rc::new(c.u.clone());
        let rf = Ref::new(&u);
        let h = u.content_hash(&c.p);
        ctx.rep.distinct.insert(h);
        ctx.rep.count(&format!("family:{}", c.family));
        let sync_opts = SolveOpts { activity: c.activity, ..SolveOpts::default() };
        let (_s, sync_out) = solve_once(&u, &c.p, &sync_opts);
        let sync_verdict = sync_out.verdict();
        if sync_verdict.is_none() {
            ctx.rep.count("sync-run-not-a-verdict (see C04)");
        }
        let run = |policy: Policy, ctx: &mut Ctx| -> Vec<(usize, usize)> {
            ctx.rep.evaluations += 1;
            let opts = SolveOpts { mode: Mode::Async(policy.clone()), pause_mask: c.pause_mask, activity: c.activity, ..SolveOpts::default() };
            let (sess, out) = solve_once(&u, &c.p, &opts);
            note_outcome(ctx.rep, &out);
            let what = format!("policy {:?} pause_mask {}", policy, c.pause_mask);
            if matches!(policy, Policy::Threads(_)) {
                ctx.rep.count("runs-completed-by-helper-threads");
                ctx.rep.add("cross-thread-wakeups", sess.prov().sched.thread_wakes.get());
            }
            judge_async(&u, &rf, &c.p, sync_verdict, &sess, &out, ctx, &what);
            let log = sess.log();
            let mut maxp = 0;
            let mut q = 0u64;
            for e in &log {
                if let Ev::Quiescent(t) = e {
                    maxp = maxp.max(t.len());
                    q += 1;
                }
            }
            ctx.rep.add("quiescent-points", q);
            ctx.rep.max("max-parked", maxp as u64);
            if maxp >= 2 {
                ctx.rep.nontrivial.insert(h);
            }
            let mut choices: Vec<(usize, usize)> = vec![];
            let mut last = 0usize;
            for e in &log {
                match e {
                    Ev::Quiescent(t) => last = t.len(),
                    Ev::Release(_) => choices.push((last, 0)),
                    _ => {}
                }
            }
            let mut hsh = 0xcbf29ce484222325u64;
            for e in &log {
                if let Ev::Release(t) = e {
                    for b in format!("{:?}", t).bytes() {
                        hsh = (hsh ^ b as u64).wrapping_mul(0x100000001b3);
                    }
                }
            }
            ctx.rep.set_insert("distinct-release-sequences", hsh ^ h);
            choices
        };
        if c.exhaustive {
            // depth first enumeration of the schedule tree by explicit choice prefixes
            let mut stack: Vec<Vec<usize>> = vec![vec![]];
            let mut leaves = 0u64;
            let mut complete = true;
            while let Some(prefix) = stack.pop() {
                if leaves >= 3000 {
                    complete = false;
                    break;
                }
                let widths = run(Policy::Explicit(prefix.clone()), ctx);
                leaves += 1;
                // children: at each step beyond the prefix where more than one option existed, the
                // run took option 0; enqueue the alternatives for the first such step only at each
                // depth (standard prefix enumeration)
                for (depth, &(n, _)) in widths.iter().enumerate().skip(prefix.len()) {
                    for alt in 1..n {
                        let mut np: Vec<usize> = prefix.clone();
                        np.resize(depth, 0);
                        np.push(alt);
                        stack.push(np);
                    }
                }
            }
            ctx.rep.add("exhaustive:schedules-enumerated", leaves);
            if complete {
                ctx.rep.count("exhaustive:cases-with-complete-schedule-tree");
            } else {
                ctx.rep.count("exhaustive:cases-truncated-at-3000-schedules");
            }
        } else {
            for pol in &c.policies {
                run(pol.clone(), ctx);
            }
            // a provider that queries the solver's cache from inside sort_candidates (as real
            // providers do to break ties): its requests race with the encoder's own, every callback
            // suspends. Same oracle (in particular: nothing is asked twice).
            if h % 3 == 0 {
                for (k, pol) in c.policies.iter().filter(|p| matches!(p, Policy::Random(_))).take(2).enumerate() {
                    ctx.rep.evaluations += 1;
                    let opts = SolveOpts { mode: Mode::Async(pol.clone()), pause_mask: PAUSE_ALL, activity: c.activity, ..SolveOpts::default() };
                    let mut sess = Session::new(u.clone(), &opts);
                    sess.prov().reentrant_sort.set(true);
                    // the second of these runs uses an impatient provider that abandons re-entrant
                    // dependency queries which are not ready at once (waiters have to start over)
                    sess.prov().abandon.set(k == 1);
                    let out = sess.solve(&c.p);
                    ctx.rep.add("re-entrant-queries-abandoned-by-the-provider", sess.prov().abandoned.get());
                    note_outcome(ctx.rep, &out);
                    ctx.rep.count("runs-with-re-entrant-cache-queries-from-sort_candidates");
                    ctx.rep.add("re-entrant-queries", sess.prov().reentrant_queries.get());
                    judge_async(&u, &rf, &c.p, sync_verdict, &sess, &out, ctx, &format!("policy {:?}, sort_candidates queries the cache re-entrantly", pol));
                }
            }
        }
        if c.exhaustive {
            ctx.rep.sample(|| json!({"exhaustive_schedule_tree": true, "universe": universe_text(&u), "problem": problem_text(&u, &c.p)}));
        }
    }
}
