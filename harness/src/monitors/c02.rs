//! C02 — Unsolvable iff no solution exists; verdict invariant under metamorphic variants.
use std::rc::Rc;

use serde::{Deserialize, Serialize};
use serde_json::json;

use super::*;
use crate::{
    campaign::Monitor,
    gener,
    hooks,
    reference::{Exists, Ref},
    report::{Ctx, Tier},
    run::{Outcome, solve_once},
};

pub struct C02;

#[derive(Clone, Debug, Serialize, Deserialize)]
pub struct Variant {
    pub what: String,
    pub u: Universe,
    pub p: Prob,
    pub opts: SolveOpts,
}

#[derive(Clone, Debug, Serialize, Deserialize)]
pub struct C02Case {
    pub family: String,
    /// base universe (the brute force reference is evaluated on this one)
    pub u: Universe,
    pub p: Prob,
    /// brute force applicable (small universe)
    pub brute: bool,
    pub variants: Vec<Variant>,
}

pub const FAMILIES: &[(&str, u64)] =
    &[("tiny", 2), ("tiny-hints", 1), ("medium", 3), ("conf", 6), ("conf-hints", 3), ("deep", 5), ("deep-hints", 2), ("big", 2), ("many-excl", 1), ("union-conf", 3), ("union-conf-hints", 4)];

pub const EXISTS_BUDGET: u64 = 300_000;

/// Certificate check of an Unsolvable verdict from the hooked clause database.
pub fn certify_unsat(sess: &crate::run::Session, rf: &Ref, p: &Prob, ctx: &mut Ctx, what: &str) {
    let d = sess.solver.verif_dump();
    for v in hooks::encoding_sound(&d, rf, p) {
        ctx.violation("h1-encoding-unsound", format!("{what}: {v}"));
    }
    match hooks::rup_check(&d, true) {
        Ok(st) => {
            ctx.rep.add("rup:learnt-clauses-checked", st.learnt_checked);
            ctx.rep.add("rup:propagations", st.propagations);
            ctx.rep.count("rup:unsat-verdicts-certified");
        }
        Err(e) => ctx.violation("h1-rup-failed", format!("{what}: {e}")),
    }
    for v in hooks::watch_integrity(&d) {
        ctx.violation("h1-watch-list", format!("{what}: {v}"));
    }
}

impl Monitor for C02 {
    type Case = C02Case;
    fn id(&self) -> &'static str {
        "C02"
    }
    fn rule(&self) -> String {
        "cases = base universe (families tiny/medium/conf/deep biased to constrains-heavy, plus 'big' 20x8 universes) with 6 metamorphic variants (candidate order, ranks/favored, dense id renumbering, hint pattern, activity parameters, async completion order); every variant's verdict is compared with a brute-force existence search on the base (small universes); every Unsolvable verdict is additionally certified from the hooked clause database (each problem clause equals the reference encoding of the provider facts, each learnt clause is RUP-derivable in order, unit propagation refutes the root); every Ok result is checked with the reference `valid`. distinct = content hash of base; non-trivial = base where some run had >= 2 conflicts or a restart".into()
    }
    fn cases(&self, tier: Tier) -> u64 {
        tier.pick(72_000, 1_440_000)
    }
    fn floor(&self, tier: Tier) -> u64 {
        tier.pick(800, 8_000)
    }
    fn generate(&self, r: &mut Rng, _tier: Tier, _i: u64) -> C02Case {
        let (name, cfg) = pick_family(r, FAMILIES);
        let (name, (u, p)) = if r.chance(1, 30) { ("conflict-chain", gener::conflict_chain(r)) } else if r.chance(1, 60) { ("union-abandon", gener::union_abandon(r)) } else { (name, gener::generate(r, &cfg)) };
        let p = p.hard();
        let brute = name != "big" && name != "many-excl";
        let mut variants = vec![];
        variants.push(Variant { what: "base sync".into(), u: u.clone(), p: p.clone(), opts: SolveOpts::default() });
        variants.push(Variant {
            what: "permuted candidate lists".into(),
            u: gener::permute_candidates(&u, r),
            p: p.clone(),
            opts: SolveOpts::default(),
        });
        variants.push(Variant { what: "re-ranked / re-favored".into(), u: gener::rerank(&u, r), p: p.clone(), opts: SolveOpts::default() });
        let (u2, p2) = gener::renumber(&u, &p, r, false);
        variants.push(Variant { what: "renumbered ids".into(), u: u2, p: p2, opts: SolveOpts::default() });
        variants.push(Variant { what: "different hints".into(), u: gener::rehint(&u, r), p: p.clone(), opts: SolveOpts::default() });
        variants.push(Variant {
            what: "activity parameters".into(),
            u: u.clone(),
            p: p.clone(),
            opts: SolveOpts { activity: Some(gener::activity_params(r)), ..SolveOpts::default() },
        });
        variants.push(Variant { what: "async order".into(), u: gener::rehint(&u, r), p: p.clone(), opts: async_opts(r) });
        C02Case { family: name.into(), u, p, brute, variants }
    }
    fn check(&self, c: &C02Case, ctx: &mut Ctx) {
        let rf = Ref::new(&c.u);
        let h = c.u.content_hash(&c.p);
        ctx.rep.distinct.insert(h);
        ctx.rep.count(&format!("family:{}", c.family));
        let expect = if c.brute {
            match rf.exists(&c.p, &[], EXISTS_BUDGET) {
                Exists::Sat(w) => {
                    // the witness itself must be valid by the reference rules (oracle self check)
                    let bad = rf.check(&c.p, &w, &[]);
                    if !bad.is_empty() {
                        ctx.rep.inconclusive("reference witness invalid (oracle bug)");
                        return;
                    }
                    Some((true, w))
                }
                Exists::Unsat => Some((false, vec![])),
                Exists::Unknown => {
                    ctx.rep.inconclusive("brute force budget exceeded");
                    None
                }
            }
        } else {
            None
        };
        let mut verdicts: Vec<(String, bool)> = vec![];
        for v in &c.variants {
            ctx.rep.evaluations += 1;
            let vu = Rc::new(v.u.clone());
            let vrf = Ref::new(&vu);
            let (sess, out) = solve_once(&vu, &v.p, &v.opts);
            note_outcome(ctx.rep, &out);
            let hs = hook_stats(&sess);
            ctx.rep.count(&format!("conflicts:{}", hs.conflicts.min(6)));
            ctx.rep.max("max-backjump", hs.max_backjump as u64);
            if hs.conflicts >= 2 || hs.restarts >= 1 {
                ctx.rep.nontrivial.insert(h);
            }
            match &out {
                Outcome::Ok(sol) => {
                    verdicts.push((v.what.clone(), true));
                    for e in vrf.check(&v.p, sol, &[]) {
                        ctx.violation("ok-but-invalid", format!("{}: {e}", v.what));
                    }
                    if let Some((false, _)) = &expect {
                        ctx.violation("ok-but-no-solution-exists", format!("variant '{}' returned {:?}", v.what, sol));
                    }
                }
                Outcome::Unsat(_) => {
                    verdicts.push((v.what.clone(), false));
                    if let Some((true, w)) = &expect {
                        ctx.violation(
                            "unsolvable-but-solution-exists",
                            format!("variant '{}' reported Unsolvable; witness on base universe: {:?}", v.what, w.iter().map(|&s| c.u.solv_label(s)).collect::<Vec<_>>()),
                        );
                    }
                    certify_unsat(&sess, &vrf, &v.p, ctx, &v.what);
                }
                Outcome::Panic(_) | Outcome::Budget | Outcome::Deadlock | Outcome::Cancelled(_) => {
                    ctx.rep.count("not-a-verdict (see C04/C10)");
                }
            }
        }
        // one more variant: the base problem on a solver that has solved an unrelated problem (two
        // arbitrary version sets of the universe) before - the verdict may not depend on that
        if h % 3 == 1 && !c.u.vsets.is_empty() {
            let nv = c.u.vsets.len() as u64;
            let other = Prob { reqs: vec![Req::Single((h / 7 % nv) as u32), Req::Single((h / 97 % nv) as u32)], cons: vec![], soft: vec![] };
            let bu = Rc::new(c.u.clone());
            let mut sess = crate::run::Session::new(bu.clone(), &SolveOpts::default());
            let _ = sess.solve(&other);
            ctx.rep.evaluations += 1;
            let out = sess.solve(&c.p);
            let what = format!("reused solver (first: {})", problem_text(&c.u, &other));
            match &out {
                Outcome::Ok(sol) => {
                    verdicts.push((what.clone(), true));
                    ctx.rep.count("verdicts-on-a-reused-solver");
                    for e in rf.check(&c.p, sol, &[]) {
                        ctx.violation("ok-but-invalid", format!("{what}: {e}"));
                    }
                    if let Some((false, _)) = &expect {
                        ctx.violation("ok-but-no-solution-exists", format!("variant '{what}' returned {:?}", sol));
                    }
                }
                Outcome::Unsat(_) => {
                    verdicts.push((what.clone(), false));
                    ctx.rep.count("verdicts-on-a-reused-solver");
                    if let Some((true, w)) = &expect {
                        ctx.violation("unsolvable-but-solution-exists", format!("variant '{what}' reported Unsolvable; witness on base universe: {:?}", w.iter().map(|&s| c.u.solv_label(s)).collect::<Vec<_>>()));
                    }
                    certify_unsat(&sess, &rf, &c.p, ctx, &what);
                }
                _ => ctx.rep.count("not-a-verdict (see C04/C13)"),
            }
        }
        if let Some((first, rest)) = verdicts.split_first() {
            for v in rest {
                if v.1 != first.1 {
                    ctx.violation("verdict-depends-on-variant", format!("'{}' -> {} but '{}' -> {}", first.0, first.1, v.0, v.1));
                }
            }
        }
        if ctx.rep.nontrivial.contains(&h) {
            ctx.rep.sample(|| json!({"universe": universe_text(&c.u), "problem": problem_text(&c.u, &c.p), "expected_solvable": expect.as_ref().map(|e| e.0), "verdicts": verdicts}));
        }
    }
}
