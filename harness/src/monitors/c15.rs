//! C15 — one solvable per package for any number of candidates and any discovery order.
use std::rc::Rc;

use serde::{Deserialize, Serialize};
use serde_json::json;

use super::*;
use crate::{
    campaign::Monitor,
    hooks,
    report::{Ctx, Tier},
    run::{Outcome, solve_once},
};

pub struct C15;

#[derive(Clone, Debug, Serialize, Deserialize)]
pub struct C15Case {
    pub n: u32,
    pub u: Universe,
    /// requirements that reveal (groups of) candidates before the pair / single requirement
    pub reveal: Vec<Req>,
    /// version set "exactly candidate i"
    pub singles: Vec<u32>,
    pub pairs: Vec<(u32, u32)>,
    pub check_singles: Vec<u32>,
    /// (k, i, j): candidates 0..k revealed through a requirement, i < k required, j requested as a
    /// soft requirement (never revealed when j >= k)
    #[serde(default)]
    pub soft_triples: Vec<(u32, u32, u32)>,
    pub opts: SolveOpts,
    pub exhaustive: bool,
}

/// Package "a" with n candidates, revealed through union requirements `(z | a-subset)` in a random
/// partition and order (variant 0: no reveal; 1: in order; 2: shuffled; 3: overlapping groups; 4: unions listing two overlapping ranges of the package).
pub fn build(r: &mut Rng, n: u32, variant: u64) -> (Universe, Vec<Req>, Vec<u32>) {
    let mut u = Universe::default();
    for v in 1..=n {
        u.solv("a", v);
    }
    u.solv("z", 1);
    for s in 0..n as usize {
        u.solvs[s].rank = r.below(10_000) as u32;
    }
    let vz = u.vs("z", 1, 2);
    let mut reveal: Vec<Req> = vec![];
    if variant > 0 {
        let mut lo = 1;
        while lo <= n {
            let hi = (lo + 1 + r.below(6) as u32).min(n + 1);
            let v = if variant == 3 && lo > 1 { u.vs("a", lo - 1, hi) } else { u.vs("a", lo, hi) };
            // variant 4: the union lists two overlapping ranges of the package itself (a candidate
            // is revealed twice by one requirement)
            let un = if variant == 4 {
                let mid = lo + (hi - lo) / 2;
                let v2 = u.vs("a", mid, (hi + 1).min(n + 1));
                if r.chance(1, 2) { u.union(vec![v, v2, vz]) } else { u.union(vec![vz, v2, v]) }
            } else {
                u.union(vec![vz, v])
            };
            reveal.push(Req::Union(un));
            lo = hi;
        }
        if variant == 2 || variant == 3 {
            r.shuffle(&mut reveal);
        }
    }
    let singles: Vec<u32> = (1..=n).map(|v| u.vs("a", v, v + 1)).collect();
    u.finalize();
    if r.chance(1, 3) {
        for p in &mut u.pkgs {
            p.hint = Hint::All;
        }
    }
    (u, reveal, singles)
}

impl Monitor for C15 {
    type Case = C15Case;
    fn id(&self) -> &'static str {
        "C15"
    }
    fn rule(&self) -> String {
        "cases = a package with n candidates (random ranks => random discovery order) revealed through union requirements '(z | subset of a)' in random partitions / orders / overlaps, or not revealed at all; for n <= 40 ALL pairs i<j and all singles are checked for every reveal variant (exhaustive subset, `fixed` work), for n up to 260 sampled pairs crossing the 2^k boundaries. Oracle (expected by construction): {reveal.., =i, =j} is Unsolvable, {reveal.., =i} is Ok and contains exactly candidate i of the package. Discovery through a `constrains` entry first (no reveal variants, sampled pairs): a solvable that is tried first constrains the package, is abandoned after a conflict, and the pair / single is then required two levels down: same expectation. Reused solver: after a warm-up solve that met the package, sampled pairs / singles on the SAME solver: same expectation. Revealed while ruled out: a hinted solvable tried first constrains candidate i away before a later requirement reveals exactly i, is abandoned, and i becomes true (pair with j: Unsolvable; alone: exactly i). Hook monitor after each solve: over the dumped forbid clauses of the package, unit propagation from any registered candidate must falsify every other one without conflict (layout independent). distinct = (n, variant, pair); non-trivial = pair at a size where >= 1 helper variable exists (n >= 2)".into()
    }
    fn cases(&self, tier: Tier) -> u64 {
        tier.pick(1_800, 36_000)
    }
    fn floor(&self, tier: Tier) -> u64 {
        tier.pick(5_000, 50_000)
    }
    fn generate(&self, r: &mut Rng, _tier: Tier, _i: u64) -> C15Case {
        // sampled sizes, biased to powers of two +-1 and the 128 chunk boundary
        let n = match r.below(4) {
            0 => {
                let k = 1 + r.below(8);
                ((1u64 << k) as i64 + r.below(3) as i64 - 1).max(2) as u32
            }
            1 => 120 + r.below(20) as u32,
            _ => 2 + r.below(259) as u32,
        };
        let variant = r.below(5);
        let (u, reveal, singles) = build(r, n, variant);
        let mut pairs = vec![];
        for _ in 0..30 {
            let i = r.below(n as u64) as u32;
            let mut j = r.below(n as u64) as u32;
            if i == j {
                j = (j + 1) % n;
            }
            if i != j {
                pairs.push((i.min(j), i.max(j)));
            }
        }
        let check_singles: Vec<u32> = (0..10).map(|_| r.below(n as u64) as u32).collect();
        let mut soft_triples = vec![];
        for _ in 0..12 {
            let k = 1 + r.below(n as u64) as u32;
            soft_triples.push((k, r.below(k as u64) as u32, r.below(n as u64) as u32));
        }
        let opts = if r.chance(1, 4) { async_opts(r) } else { SolveOpts::default() };
        C15Case { n, u, reveal, singles, pairs, check_singles, soft_triples, opts, exhaustive: false }
    }
    fn check(&self, c: &C15Case, ctx: &mut Ctx) {
        let u = Rc::new(c.u.clone());
        ctx.rep.max("max-candidates", c.n as u64);
        ctx.rep.count(&format!("size-bucket:{}", match c.n { 0..=8 => "1-8", 9..=40 => "9-40", 41..=127 => "41-127", 128..=129 => "128-129", _ => "130-260" }));
        let mut first_dump_checked = false;
        for &(i, j) in &c.pairs {
            ctx.rep.evaluations += 1;
            let mut reqs = c.reveal.clone();
            reqs.push(Req::Single(c.singles[i as usize]));
            reqs.push(Req::Single(c.singles[j as usize]));
            let p = Prob { reqs, cons: vec![], soft: vec![] };
            let (sess, out) = solve_once(&u, &p, &c.opts);
            ctx.rep.distinct.insert(((c.n as u64) << 40) ^ ((i as u64) << 20) ^ j as u64 ^ (u.content_hash(&p) << 50));
            if c.n >= 2 {
                ctx.rep.nontrivial.insert(((c.n as u64) << 40) ^ ((i as u64) << 20) ^ j as u64 ^ (u.content_hash(&p) << 50));
            }
            match &out {
                Outcome::Unsat(_) => {}
                Outcome::Ok(sol) => ctx.violation(
                    "two candidates of one package requested together but problem reported solvable",
                    format!("n={} pair ({i},{j}) reveal={} -> {:?}", c.n, c.reveal.len(), sol.iter().map(|&s| u.solv_label(s)).collect::<Vec<_>>()),
                ),
                o => ctx.violation(format!("pair problem did not produce a verdict: {}", o.tag()), format!("n={} pair ({i},{j})", c.n)),
            }
            if !first_dump_checked {
                first_dump_checked = true;
                let d = sess.solver.verif_dump();
                for (name, msg) in hooks::amo_structure(&d) {
                    ctx.violation("h1: at-most-one encoding malformed", format!("n={} package {name}: {msg}", c.n));
                }
                let helpers = d.clauses.iter().filter_map(|c| match c.literals.get(1) { Some((resolvo::verif::VerifVar::Helper(_, h), _)) => Some(*h), _ => None }).collect::<std::collections::BTreeSet<_>>().len();
                ctx.rep.max("max-helper-variables", helpers as u64);
            }
        }
        for &i in &c.check_singles {
            ctx.rep.evaluations += 1;
            let mut reqs = c.reveal.clone();
            reqs.push(Req::Single(c.singles[i as usize]));
            let p = Prob { reqs, cons: vec![], soft: vec![] };
            let (_sess, out) = solve_once(&u, &p, &c.opts);
            match &out {
                Outcome::Ok(sol) => {
                    let of_a: Vec<u32> = sol.iter().copied().filter(|&s| u.solvs[s as usize].name == 0).collect();
                    if of_a != vec![i] {
                        ctx.violation("single candidate requested but a different set of the package was selected", format!("n={} single {i} -> {:?}", c.n, of_a));
                    }
                }
                Outcome::Unsat(_) => ctx.violation("single candidate of a package is not selectable", format!("n={} single {i} reveal={}", c.n, c.reveal.len())),
                o => ctx.violation(format!("single problem did not produce a verdict: {}", o.tag()), format!("n={} single {i}", c.n)),
            }
        }
        // soft path: candidates [0, k) revealed by a range requirement, candidate i required, candidate j
        // requested directly as a soft requirement: never both
        for &(k, i, j) in &c.soft_triples {
            if i == j || k == 0 || i >= k {
                continue;
            }
            ctx.rep.evaluations += 1;
            ctx.rep.count("soft-path-problems");
            // version numbers are index + 1
            let mut uu = (*u).clone();
            let range = uu.vs("a", 1, k + 1);
            uu.finalize();
            // a third of the never-revealed soft candidates are not even LISTED by their package (an
            // installed version that has left the index); some of those universes list only the
            // revealed candidates
            if j >= k && (k + i + j) % 3 == 0 {
                let keep_only_revealed = (k + j) % 2 == 0;
                if let Some(cl) = uu.pkgs[0].candidates.as_mut() {
                    cl.retain(|&s| s != j && (!keep_only_revealed || s < k));
                }
                ctx.rep.count("soft-path-problems-with-an-unlisted-soft-candidate");
            }
            let uu = Rc::new(uu);
            let p = Prob { reqs: vec![Req::Single(range), Req::Single(c.singles[i as usize])], cons: vec![], soft: vec![j] };
            let (_sess, out) = solve_once(&uu, &p, &c.opts);
            match &out {
                Outcome::Ok(sol) => {
                    let of_a: Vec<u32> = sol.iter().copied().filter(|&s| uu.solvs[s as usize].name == 0).collect();
                    if of_a != vec![i] {
                        ctx.violation(
                            "soft requirement on another candidate of a package selected together with the required one",
                            format!("n={} revealed 0..{k}, required {i}, soft {j} -> {:?}", c.n, of_a),
                        );
                    }
                }
                o => ctx.violation(format!("soft-path problem did not return Ok: {}", o.tag()), format!("n={} k={k} i={i} j={j}", c.n)),
            }
        }
        // soft first, discovery later: candidate j is requested directly (and accepted) while nothing
        // has requested the package; a LATER soft requirement `sw` needs a range of the package, which
        // makes the encoder discover the package only then: never two candidates together, and j stays
        for &(k, _i, j) in c.soft_triples.iter().take(6) {
            if k == 0 {
                continue;
            }
            ctx.rep.evaluations += 1;
            ctx.rep.count("soft-then-discovery-problems");
            let mut uu = (*u).clone();
            let sw = uu.solv("sw", 1);
            let range = uu.vs("a", 1, k + 1);
            uu.add_req(sw, Req::Single(range));
            uu.finalize();
            let uu = Rc::new(uu);
            let p = Prob { reqs: vec![], cons: vec![], soft: vec![j, sw] };
            let (_sess, out) = solve_once(&uu, &p, &c.opts);
            match &out {
                Outcome::Ok(sol) => {
                    let of_a: Vec<u32> = sol.iter().copied().filter(|&s| uu.solvs[s as usize].name == 0).collect();
                    if of_a != vec![j] {
                        ctx.violation(
                            "directly requested candidate and a later discovered candidate of the package selected together (or the accepted one lost)",
                            format!("n={} soft [{j}, sw requires 0..{k}] -> candidates of the package in the solution: {:?}", c.n, of_a),
                        );
                    }
                }
                o => ctx.violation(format!("soft-then-discovery problem did not return Ok: {}", o.tag()), format!("n={} k={k} j={j}", c.n)),
            }
        }
        // discovery through a `constrains` entry first: w=2 (tried first) constrains the package to a
        // range (its other candidates become known to the solver as non-matching ones) and needs
        // q=1, which requires candidate j outside the range -> w=2 is abandoned; w=1 needs z=1,
        // which requires candidates i and j (pair: Unsolvable) or only i (single: exactly i)
        if c.reveal.is_empty() && c.n >= 2 {
            let step = (c.pairs.len() / 6).max(1);
            for &(i, j) in c.pairs.iter().step_by(step).take(8) {
                for single in [false, true] {
                    ctx.rep.evaluations += 1;
                    ctx.rep.count("constraint-first-problems");
                    let mut uu = (*u).clone();
                    let (w2, w1, q1, z1) = (uu.solv("w", 2), uu.solv("w", 1), uu.solv("q", 1), uu.solv("z", 1 + 100));
                    // a range that contains i but not j (versions are index + 1; i < j)
                    let lo = if (i + j) % 2 == 0 { 1 } else { i + 1 };
                    let range = uu.vs("a", lo, j + 1);
                    let (q_any, z_any, w_any) = (uu.vs("q", 0, 1000), uu.vs("z", 101, 102), uu.vs("w", 0, 1000));
                    uu.add_con(w2, range);
                    uu.add_req(w2, Req::Single(q_any));
                    uu.add_req(q1, Req::Single(c.singles[j as usize]));
                    uu.add_req(w1, Req::Single(z_any));
                    uu.add_req(z1, Req::Single(c.singles[i as usize]));
                    if !single {
                        uu.add_req(z1, Req::Single(c.singles[j as usize]));
                    }
                    uu.finalize();
                    let uu = Rc::new(uu);
                    let p = Prob { reqs: vec![Req::Single(w_any)], cons: vec![], soft: vec![] };
                    let (_sess, out) = solve_once(&uu, &p, &c.opts);
                    match (&out, single) {
                        (Outcome::Unsat(_), false) => {}
                        (Outcome::Ok(sol), false) => ctx.violation(
                            "two candidates of one package selected together (package first met through a constrains entry)",
                            format!("n={} pair ({i},{j}) -> {:?}", c.n, sol.iter().map(|&s| uu.solv_label(s)).collect::<Vec<_>>()),
                        ),
                        (Outcome::Ok(sol), true) => {
                            let of_a: Vec<u32> = sol.iter().copied().filter(|&s| uu.solvs[s as usize].name == 0).collect();
                            if of_a != vec![i] {
                                ctx.violation("single candidate requested (package first met through a constrains entry) but a different set was selected", format!("n={} single {i} -> {:?}", c.n, of_a));
                            }
                        }
                        (Outcome::Unsat(_), true) => ctx.violation("single candidate of a package is not selectable (package first met through a constrains entry)", format!("n={} single {i}", c.n)),
                        (o, _) => ctx.violation(format!("constraint-first problem did not produce a verdict: {}", o.tag()), format!("n={} pair ({i},{j}) single={single}", c.n)),
                    }
                }
            }
        }
        // reused solver: an earlier solve on the same solver has already met the package (all of it
        // through `a *`, or one candidate); afterwards pairs must still be Unsolvable and singles
        // selectable, as for a fresh solver
        {
            let step = (c.pairs.len() / 5).max(1);
            let warm_all = u.vsets.iter().position(|v| v.name == 0 && v.matching.len() == c.n as usize);
            let mut sess = crate::run::Session::new(u.clone(), &c.opts);
            let mut warmed = false;
            for (t, &(i, j)) in c.pairs.iter().step_by(step).take(6).enumerate() {
                if !warmed {
                    // warm-up problem: everything (if such a version set exists), else candidate j alone
                    let w = match warm_all {
                        Some(v) if t % 2 == 0 => Req::Single(v as u32),
                        _ => Req::Single(c.singles[j as usize]),
                    };
                    let mut reqs = c.reveal.clone();
                    reqs.push(w);
                    let _ = sess.solve(&Prob { reqs, cons: vec![], soft: vec![] });
                    warmed = true;
                }
                ctx.rep.evaluations += 2;
                ctx.rep.count("reused-solver-problems");
                let mut reqs = c.reveal.clone();
                reqs.push(Req::Single(c.singles[i as usize]));
                reqs.push(Req::Single(c.singles[j as usize]));
                match sess.solve(&Prob { reqs, cons: vec![], soft: vec![] }) {
                    Outcome::Unsat(_) => {}
                    Outcome::Ok(sol) => ctx.violation(
                        "two candidates of one package selected together on a reused solver",
                        format!("n={} pair ({i},{j}) -> {:?}", c.n, sol.iter().map(|&s| u.solv_label(s)).collect::<Vec<_>>()),
                    ),
                    o => {
                        ctx.violation(format!("pair problem on a reused solver did not produce a verdict: {}", o.tag()), format!("n={} pair ({i},{j})", c.n));
                        break;
                    }
                }
                let mut reqs = c.reveal.clone();
                reqs.push(Req::Single(c.singles[i as usize]));
                match sess.solve(&Prob { reqs, cons: vec![], soft: vec![] }) {
                    Outcome::Ok(sol) => {
                        let of_a: Vec<u32> = sol.iter().copied().filter(|&s| u.solvs[s as usize].name == 0).collect();
                        if of_a != vec![i] {
                            ctx.violation("single candidate requested on a reused solver but a different set of the package was selected", format!("n={} single {i} -> {:?}", c.n, of_a));
                        }
                    }
                    Outcome::Unsat(_) => ctx.violation("single candidate of a package is not selectable on a reused solver", format!("n={} single {i}", c.n)),
                    o => {
                        ctx.violation(format!("single problem on a reused solver did not produce a verdict: {}", o.tag()), format!("n={} single {i}", c.n));
                        break;
                    }
                }
            }
        }
        // revealed while ruled out: pp=2 (tried first, dependencies hinted as available) constrains the
        // package to a range without candidate i, so candidate i is assigned false before anything
        // reveals it; qq=1 then requires exactly candidate i (revealed while false) -> pp=2 is
        // abandoned for pp=1 and candidate i becomes true. With candidate j required as well the
        // problem is Unsolvable; without it exactly candidate i is selected.
        if c.n >= 2 {
            let step = (c.pairs.len() / 4).max(1);
            for (t, &(i, j)) in c.pairs.iter().step_by(step).take(5).enumerate() {
                for single in [false, true] {
                    ctx.rep.evaluations += 1;
                    ctx.rep.count("revealed-while-false-problems");
                    let mut uu = (*u).clone();
                    let (p2, _p1, q1) = (uu.solv("pp", 2), uu.solv("pp", 1), uu.solv("qq", 1));
                    // all candidates except i (versions are index + 1)
                    let without_i: Vec<u32> = (0..c.n).filter(|&x| x != i).collect();
                    let label = format!("not-{}", i + 1);
                    let not_i = uu.vs_ext("a", &label, without_i);
                    uu.add_con(p2, not_i);
                    uu.add_req(q1, Req::Single(c.singles[i as usize]));
                    let (p_any, q_any) = (uu.vs("pp", 0, 1000), uu.vs("qq", 0, 1000));
                    uu.finalize();
                    // only pp's dependencies are available eagerly (its constrains clause exists before
                    // pp=2 is decided); qq=1 is encoded after it was selected, when i is already false
                    for pk in &mut uu.pkgs {
                        pk.hint = match t % 3 {
                            0 | 1 if pk.name == "pp" => Hint::All,
                            2 => Hint::All,
                            _ => Hint::None,
                        };
                    }
                    let uu = Rc::new(uu);
                    let mut reqs = vec![Req::Single(p_any), Req::Single(q_any)];
                    if !single {
                        reqs.push(Req::Single(c.singles[j as usize]));
                    }
                    if t % 2 == 1 {
                        reqs.reverse();
                    }
                    let p = Prob { reqs, cons: vec![], soft: vec![] };
                    let (_sess, out) = solve_once(&uu, &p, &c.opts);
                    match (&out, single) {
                        (Outcome::Unsat(_), false) => {}
                        (Outcome::Ok(sol), false) => ctx.violation(
                            "two candidates of one package selected together (candidate revealed while it was ruled out)",
                            format!("n={} pair ({i},{j}) -> {:?}", c.n, sol.iter().map(|&s| uu.solv_label(s)).collect::<Vec<_>>()),
                        ),
                        (Outcome::Ok(sol), true) => {
                            let of_a: Vec<u32> = sol.iter().copied().filter(|&s| uu.solvs[s as usize].name == 0).collect();
                            if of_a != vec![i] {
                                ctx.violation("single candidate requested (revealed while it was ruled out) but a different set was selected", format!("n={} single {i} -> {:?}", c.n, of_a));
                            }
                        }
                        (Outcome::Unsat(_), true) => ctx.violation("single candidate of a package is not selectable (revealed while it was ruled out)", format!("n={} single {i}", c.n)),
                        (o, _) => ctx.violation(format!("revealed-while-false problem did not produce a verdict: {}", o.tag()), format!("n={} pair ({i},{j}) single={single}", c.n)),
                    }
                }
            }
        }
        if c.exhaustive {
            ctx.rep.count("exhaustive:size-variant-combinations");
        } else if ctx.rep.samples.len() < 2 {
            ctx.rep.sample(|| json!({"n": c.n, "reveal_groups": c.reveal.len(), "pairs": c.pairs.iter().take(5).collect::<Vec<_>>(), "mode": format!("{:?}", c.opts.mode)}));
        }
    }
    fn fixed(&self, tier: Tier, shard: u64, nshards: u64, ctx: &mut Ctx) {
        // exhaustive: all pairs and all singles for n = 1..=nmax, 4 reveal variants
        let nmax = tier.pick(24u32, 40u32);
        let mut job = 0u64;
        for n in 1..=nmax {
            for variant in 0..5u64 {
                job += 1;
                if job % nshards != shard {
                    continue;
                }
                let mut r = Rng::new(n as u64 * 1000 + variant);
                let (u, reveal, singles) = build(&mut r, n, variant);
                let pairs: Vec<(u32, u32)> = (0..n).flat_map(|i| (i + 1..n).map(move |j| (i, j))).collect();
                // soft path exhaustively for small n (variant 0 only: the reveal is the range itself)
                let mut soft_triples = vec![];
                if variant == 0 && n <= 12 {
                    for k in 1..=n {
                        for i in 0..k {
                            for j in 0..n {
                                soft_triples.push((k, i, j));
                            }
                        }
                    }
                }
                let case = C15Case { n, u, reveal, singles, pairs, check_singles: (0..n).collect(), soft_triples, opts: SolveOpts::default(), exhaustive: true };
                let before = ctx.pending.len();
                self.check(&case, ctx);
                if ctx.pending.len() > before {
                    // keep the reproducer small: the pending entries carry n / pair in their detail
                }
            }
        }
        ctx.rep.notes.insert(format!("exhaustive subset: all pairs and singles for n = 1..={nmax}, 5 reveal variants"));
    }
}
