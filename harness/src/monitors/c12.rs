//! C12 — cancellation is honoured promptly and faithfully (fault enumeration over poll indices).
use std::rc::Rc;

use serde::{Deserialize, Serialize};
use serde_json::json;

use super::*;
use crate::{
    campaign::Monitor,
    gener,
    report::{Ctx, Tier},
    run::{Outcome, solve_once},
    sched::Policy,
};

pub struct C12;

#[derive(Clone, Debug, Serialize, Deserialize)]
pub struct C12Case {
    pub family: String,
    pub u: Universe,
    pub p: Prob,
    pub policies: Vec<Policy>,
    pub pause_mask: u8,
    pub cap: usize,
}

pub const FAMILIES: &[(&str, u64)] = &[("tiny", 3), ("tiny-hints", 2), ("tiny-soft", 3), ("medium", 2), ("conf", 2), ("conf-soft", 2), ("conf-hints", 1), ("deep", 1), ("many-soft-hints", 1), ("hub-hints", 1)];

fn same_result(a: &Outcome, b: &Outcome) -> bool {
    match (a, b) {
        (Outcome::Ok(x), Outcome::Ok(y)) => x == y,
        (Outcome::Unsat(_), Outcome::Unsat(_)) => true,
        _ => false,
    }
}

/// H3: the propagation-round monitor of the provider (see `Prov::round_monitor`).
fn round_faults(sess: &crate::run::Session, what: &str, ctx: &mut Ctx) {
    ctx.rep.add("h3:propagation-rounds-observed", sess.prov().rounds_seen.get());
    for f in sess.prov().round_faults.borrow().iter() {
        ctx.violation(format!("h3: {f}"), what.to_string());
    }
}

impl Monitor for C12 {
    type Case = C12Case;
    fn id(&self) -> &'static str {
        "C12"
    }
    fn rule(&self) -> String {
        "cases = seeded universes (incl. soft lists and hints); for each case a baseline run counts the cancellation polls P, then the case is re-run for EVERY poll index k < min(P, cap) (plus 8 sampled indices beyond the cap when P is larger) with the signal first firing at poll k (sticky for even k, transient for odd k), synchronously and under 2 async policies (signal arrives while sibling futures are parked). The cancel value is the unique integer k. Oracle per (case, mode, k): if the signal fired: result is Cancelled carrying exactly k, and no get_candidates/get_dependencies call event follows the firing poll in the log; If it never fired (async order moved the polls): result equals the baseline of that mode. Then, for EVERY provider callback event j < cap (call and return events of get_candidates / get_dependencies / filter / sort), the case is re-run with the signal raised for good while the provider handles event j: no get_candidates/get_dependencies call may start after the raise (each is documented to be preceded by a poll), the result must be Cancelled with the value of the first poll that observed it, and (hook H3, a counter of propagation rounds sampled at every provider event) every propagation round begins with a poll. A third of the cases is also enumerated with a provider whose sort_candidates queries the cache re-entrantly (polls made while a query of the provider is being polled are the provider's, all others the solver's and must lead to Cancelled). Separately: a provider that is polled but never fires gives the same result as the baseline. distinct = (content hash, mode, k); non-trivial = fired with >= 1 sibling future parked, or inside a soft-requirement phase".into()
    }
    fn cases(&self, tier: Tier) -> u64 {
        tier.pick(12_000, 240_000)
    }
    fn floor(&self, tier: Tier) -> u64 {
        tier.pick(4_000, 40_000)
    }
    fn generate(&self, r: &mut Rng, tier: Tier, _i: u64) -> C12Case {
        let (name, cfg) = pick_family(r, FAMILIES);
        let (name, (u, p)) = if r.chance(1, 25) { ("wide-union", gener::wide_union(r)) } else { (name, gener::generate(r, &cfg)) };
        C12Case { family: name.into(), u, p, policies: vec![random_policy(r), Policy::Random(r.next())], pause_mask: random_pause_mask(r), cap: tier.pick(40, 200) }
    }
    fn check(&self, c: &C12Case, ctx: &mut Ctx) {
        let u = Rc::new(c.u.clone());
        let h = u.content_hash(&c.p);
        ctx.rep.distinct.insert(h);
        ctx.rep.count(&format!("family:{}", c.family));
        let mut modes: Vec<Mode> = vec![Mode::Sync];
        modes.extend(c.policies.iter().cloned().map(Mode::Async));
        for (mi, mode) in modes.iter().enumerate() {
            let base_opts = SolveOpts { mode: mode.clone(), pause_mask: c.pause_mask, ..SolveOpts::default() };
            let (bs, base) = solve_once(&u, &c.p, &base_opts);
            if base.verdict().is_none() {
                ctx.rep.count("baseline-not-a-verdict (see C04/C10)");
                continue;
            }
            round_faults(&bs, &format!("mode {:?}, baseline", mode), ctx);
            let npolls = bs.prov().polls.get();
            ctx.rep.max("max-polls-in-baseline", npolls as u64);
            // every index below the cap, plus a sample of later ones (long runs have hundreds of polls)
            let mut ks: Vec<usize> = (0..npolls.min(c.cap)).collect();
            if npolls > c.cap {
                let mut rr = crate::gener::Rng::new(h ^ mi as u64);
                for _ in 0..8 {
                    ks.push(c.cap + rr.below((npolls - c.cap) as u64) as usize);
                }
                ctx.rep.count("cases-with-polls-beyond-the-cap (sampled there)");
            }
            for k in ks {
                ctx.rep.evaluations += 1;
                let cancel = if k % 2 == 0 { Cancel::Sticky(k) } else { Cancel::Transient(k) };
                let opts = SolveOpts { cancel, ..base_opts.clone() };
                let (sess, out) = solve_once(&u, &c.p, &opts);
                let log = sess.log();
                let fired = log.iter().position(|e| matches!(e, Ev::CancelPoll(_, true)));
                let what = format!("mode {:?} cancel {:?}", mode, cancel);
                round_faults(&sess, &what, ctx);
                match (&out, fired) {
                    (Outcome::Panic(pi), _) => ctx.violation(format!("panic while cancelling: {}", pi.signature()), what.clone()),
                    (Outcome::Deadlock, _) => ctx.violation("deadlock while cancelling", what.clone()),
                    (Outcome::Budget, _) => ctx.violation("step budget exceeded while cancelling", what.clone()),
                    (Outcome::Cancelled(val), Some(pos)) => {
                        ctx.rep.count("cancellation-fired");
                        let Ev::CancelPoll(kk, _) = log[pos] else { unreachable!() };
                        if *val != Some(kk) {
                            ctx.violation("Cancelled carries a different value", format!("{what}: fired with {kk}, result carries {:?}", val));
                        }
                        if let Some(e) = log[pos..].iter().find(|e| matches!(e, Ev::CandCall(_) | Ev::DepsCall(_))) {
                            ctx.violation("provider call started after the cancellation was observed", format!("{what}: {:?} after firing poll", e));
                        }
                        // where did it fire?
                        let before = &log[..pos];
                        let parked = before.iter().rev().find_map(|e| if let Ev::Quiescent(t) = e { Some(t.len()) } else { None }).unwrap_or(0);
                        let in_soft = !c.p.soft.is_empty() && {
                            // soft phase: a DepsCall of a soft solvable already happened
                            before.iter().any(|e| matches!(e, Ev::DepsCall(s) if c.p.soft.contains(s)))
                        };
                        let still_parked = sess.prov().sched.parked.borrow().len();
                        if still_parked > 0 {
                            ctx.rep.count("fired-with-sibling-futures-parked");
                        }
                        if in_soft {
                            ctx.rep.count("fired-during-soft-requirement-phase");
                        }
                        if still_parked > 0 || in_soft || parked > 1 {
                            ctx.rep.nontrivial.insert(h ^ ((mi as u64) << 56) ^ ((k as u64) << 40));
                        }
                        match log.get(pos + 1) {
                            Some(Ev::SolveEnd(_)) | None => ctx.rep.count("fired-at:propagate-or-last-poll"),
                            _ => ctx.rep.count("fired-at:with-trailing-events"),
                        }
                        match before.last() {
                            Some(Ev::CancelPoll(..)) | Some(Ev::SolveStart(_)) => {}
                            _ => {}
                        }
                        if ctx.rep.samples.len() < 2 && still_parked > 0 {
                            ctx.rep.sample(|| json!({"universe": universe_text(&u), "problem": problem_text(&u, &c.p), "mode": format!("{:?}", mode), "cancel": format!("{:?}", cancel), "log_tail": log[pos.saturating_sub(6)..].iter().map(|e| format!("{:?}", e)).collect::<Vec<_>>()}));
                        }
                    }
                    (_, Some(_)) => ctx.violation("cancellation fired but result is not Cancelled", format!("{what}: result {}", out.tag())),
                    (Outcome::Cancelled(_), None) => ctx.violation("Cancelled without a signal", what.clone()),
                    (_, None) => {
                        ctx.rep.count("signal-never-reached (poll order changed)");
                        if !same_result(&out, &base) && matches!(mode, Mode::Sync) {
                            ctx.violation("polling changed the result although the signal never fired", what.clone());
                        }
                    }
                }
                // informational only (see DESIGN section 3, H2): the behavioural consequence of a stale
                // marker is decided by C13
                if sess.solver.verif_in_flight() != 0 {
                    ctx.rep.count("h2:in-flight-marker-present-after-return");
                }
            }
            // the signal is raised by the application WHILE the provider handles a request (call or
            // return event j of any callback) and stays up: the documented poll points (in front of
            // every get_candidates / get_dependencies call, at the start of every propagation round)
            // then imply that no further metadata request is started and that the answer of a
            // metadata request is never turned into a result without a poll
            let nevents = bs.prov().cb_events.get();
            ctx.rep.max("max-callback-events-in-baseline", nevents as u64);
            let mut js: Vec<usize> = (0..nevents.min(c.cap)).collect();
            if nevents > c.cap {
                let mut rr = crate::gener::Rng::new(h ^ 0x77 ^ mi as u64);
                for _ in 0..8 {
                    js.push(c.cap + rr.below((nevents - c.cap) as u64) as usize);
                }
            }
            for j in js {
                ctx.rep.evaluations += 1;
                let cancel = Cancel::RaisedAt(j);
                let opts = SolveOpts { cancel, ..base_opts.clone() };
                let (sess, out) = solve_once(&u, &c.p, &opts);
                let log = sess.log();
                let what = format!("mode {:?} cancel {:?}", mode, cancel);
                round_faults(&sess, &what, ctx);
                let Some(pos) = log.iter().position(|e| matches!(e, Ev::Raised(_))) else {
                    ctx.rep.count("raise-point-not-reached");
                    continue;
                };
                ctx.rep.count("signal-raised-during-a-provider-callback");
                let at = log[pos - 1].clone();
                let at_kind = match &at {
                    Ev::CandCall(_) => "get_candidates(call)",
                    Ev::CandRet(_) => "get_candidates(return)",
                    Ev::DepsCall(_) => "get_dependencies(call)",
                    Ev::DepsRet(_) => "get_dependencies(return)",
                    Ev::Filter(..) | Ev::FilterRet(..) => "filter_candidates",
                    _ => "sort_candidates",
                };
                ctx.rep.count(&format!("raised-during:{at_kind}"));
                if let Some(e) = log[pos..].iter().find(|e| matches!(e, Ev::CandCall(_) | Ev::DepsCall(_))) {
                    ctx.violation("metadata request started after the signal was raised (no poll in front of it)", format!("{what}: raised during {:?}, then {:?}", at, e));
                }
                let fired = log[pos..].iter().find_map(|e| if let Ev::CancelPoll(k, true) = e { Some(*k) } else { None });
                match (&out, fired) {
                    (Outcome::Panic(pi), _) => ctx.violation(format!("panic while cancelling: {}", pi.signature()), what.clone()),
                    (Outcome::Deadlock, _) => ctx.violation("deadlock while cancelling", what.clone()),
                    (Outcome::Budget, _) => ctx.violation("step budget exceeded while cancelling", what.clone()),
                    (Outcome::Cancelled(val), Some(k)) => {
                        if *val != Some(k) {
                            ctx.violation("Cancelled carries a different value", format!("{what}: first observed at poll {k}, result carries {:?}", val));
                        }
                        let still_parked = sess.prov().sched.parked.borrow().len();
                        if still_parked > 0 {
                            ctx.rep.count("raised:observed-with-sibling-futures-parked");
                            ctx.rep.nontrivial.insert(h ^ ((mi as u64) << 56) ^ ((j as u64) << 40) ^ 0x5555);
                        }
                    }
                    (_, Some(_)) => ctx.violation("cancellation fired but result is not Cancelled", format!("{what}: result {}", out.tag())),
                    (Outcome::Cancelled(_), None) => ctx.violation("Cancelled without a signal", what.clone()),
                    (_, None) => {
                        // nobody polled after the raise: the run ended without another propagation
                        // round (e.g. a soft requirement rejected by its first clauses) - whether a
                        // round that did take place polled is decided by H3
                        ctx.rep.count("raised-and-never-polled-again");
                        if !same_result(&out, &base) && matches!(mode, Mode::Sync) {
                            ctx.violation("polling changed the result although the signal never fired", what.clone());
                        }
                    }
                }
            }
            // with a provider whose sort_candidates queries the solver's cache re-entrantly: a poll made
            // while one of the provider's OWN queries is being polled is answered to the provider (it
            // may drop the value, DESIGN 7.3), but every other poll is the solver's: if the signal
            // fires there the result is Cancelled with that value and nothing is started afterwards -
            // also when the solver's request was only waiting for a request the provider had started
            if h % 3 == 0 {
                let ropts = SolveOpts { pause_mask: PAUSE_ALL, ..base_opts.clone() };
                let mut bsess = crate::run::Session::new(u.clone(), &ropts);
                bsess.prov().reentrant_sort.set(true);
                let bout = bsess.solve(&c.p);
                let np = bsess.prov().polls.get();
                if bout.verdict().is_some() {
                    for k in 0..np.min(c.cap) {
                        ctx.rep.evaluations += 1;
                        let cancel = if k % 2 == 0 { Cancel::Transient(k) } else { Cancel::Sticky(k) };
                        let mut sess = crate::run::Session::new(u.clone(), &SolveOpts { cancel, ..ropts.clone() });
                        sess.prov().reentrant_sort.set(true);
                        let out = sess.solve(&c.p);
                        let log = sess.log();
                        let what = format!("mode {:?} cancel {:?}, sort_candidates queries the cache re-entrantly", mode, cancel);
                        round_faults(&sess, &what, ctx);
                        // first firing poll that was not made on behalf of the provider
                        let mut solver_side = None;
                        for (i, e) in log.iter().enumerate() {
                            if let Ev::CancelPoll(kk, true) = e {
                                if i > 0 && log[i - 1] == Ev::PollForProvider(*kk) {
                                    ctx.rep.count("re-entrant:signal-fired-on-a-poll-made-for-the-provider");
                                    continue;
                                }
                                solver_side = Some((i, *kk));
                                break;
                            }
                        }
                        match (&out, solver_side) {
                            (Outcome::Panic(pi), _) => ctx.violation(format!("panic while cancelling: {}", pi.signature()), what.clone()),
                            (Outcome::Deadlock, _) => ctx.violation("deadlock while cancelling", what.clone()),
                            (Outcome::Budget, _) => ctx.violation("step budget exceeded while cancelling", what.clone()),
                            (Outcome::Cancelled(val), Some((pos, kk))) => {
                                ctx.rep.count("re-entrant:signal-fired-on-a-poll-of-the-solver");
                                if *val != Some(kk) {
                                    ctx.violation("Cancelled carries a different value", format!("{what}: the solver first observed {kk}, result carries {:?}", val));
                                }
                                if let Some(e) = log[pos..].iter().find(|e| matches!(e, Ev::CandCall(_) | Ev::DepsCall(_))) {
                                    ctx.violation("provider call started after the cancellation was observed", format!("{what}: {:?} after the solver's firing poll", e));
                                }
                            }
                            (_, Some((_, kk))) => ctx.violation("cancellation fired but result is not Cancelled", format!("{what}: fired at the solver's own poll {kk}, result {}", out.tag())),
                            (Outcome::Cancelled(_), None) => ctx.violation("Cancelled without a signal", format!("{what}: the signal only ever fired on polls made for the provider")),
                            (_, None) => {}
                        }
                    }
                }
            }
            // never firing, with a provider that queries the cache from sort_candidates and abandons
            // some of those queries (requests are dropped although nothing was cancelled): the
            // outcome must be a verdict - the baseline's - never Cancelled
            if !matches!(mode, Mode::Sync) && h % 4 == 0 {
                let opts = SolveOpts { pause_mask: PAUSE_ALL, ..base_opts.clone() };
                let mut sess = crate::run::Session::new(u.clone(), &opts);
                sess.prov().reentrant_sort.set(true);
                sess.prov().abandon.set(true);
                let out = sess.solve(&c.p);
                ctx.rep.evaluations += 1;
                ctx.rep.count("never-firing-runs-with-an-impatient-re-entrant-provider");
                match (&out, base.verdict()) {
                    (Outcome::Cancelled(_), _) => ctx.violation("Cancelled without a signal", format!("mode {:?}, provider abandons re-entrant cache queries", mode)),
                    (o, Some(v)) if o.verdict().is_some() && o.verdict() != Some(v) => ctx.violation("never-firing signal changed the result", format!("mode {:?}, provider abandons re-entrant cache queries", mode)),
                    _ => {}
                }
            }
            // never firing: polling has no effect on the result
            if matches!(mode, Mode::Sync) {
                let opts = SolveOpts { cancel: Cancel::Sticky(usize::MAX), ..base_opts.clone() };
                let (_s, out) = solve_once(&u, &c.p, &opts);
                if !same_result(&out, &base) {
                    ctx.violation("never-firing signal changed the result", format!("mode {:?}", mode));
                }
            }
        }
    }
}
