//! C14 — soft requirements are best-effort and never harm the hard problem.
use std::{collections::BTreeSet, rc::Rc};

use serde::{Deserialize, Serialize};
use serde_json::json;

use super::*;
use crate::{
    campaign::Monitor,
    gener,
    reference::{Exists, Ref},
    report::{Ctx, Tier},
    run::{Outcome, solve_once},
};

pub struct C14;

#[derive(Clone, Debug, Serialize, Deserialize)]
pub struct C14Case {
    pub family: String,
    pub u: Universe,
    pub p: Prob,
    /// run every permutation of the soft list (lists up to length 4)
    pub permute: bool,
    pub runs: Vec<SolveOpts>,
}

pub const FAMILIES: &[(&str, u64)] = &[("tiny-soft", 3), ("tiny-hints-soft", 3), ("conf-soft", 3), ("lazy-soft", 4), ("hostile", 2), ("medium-soft", 2), ("many-soft", 1), ("many-soft-hints", 1), ("many-cand-soft", 1), ("many-cand-soft-hints", 1)];

fn permutations(v: &[u32]) -> Vec<Vec<u32>> {
    if v.len() <= 1 {
        return vec![v.to_vec()];
    }
    let mut out = vec![];
    for i in 0..v.len() {
        let mut rest = v.to_vec();
        let x = rest.remove(i);
        for mut p in permutations(&rest) {
            p.insert(0, x);
            out.push(p);
        }
    }
    out.sort();
    out.dedup();
    out
}

/// Inclusion precondition (iii): hard problem conflict-free, and the union of its closure with the
/// first-choice closures of all soft solvables is valid with every requirement met by exactly
/// one member, namely its first choice. Returns the union.
pub fn inclusion_precondition(rf: &Ref, p: &Prob) -> Option<Vec<u32>> {
    let hard = p.hard();
    let g = rf.greedy(&hard)?;
    let mut start = g.clone();
    for &x in &p.soft {
        if !start.contains(&x) {
            start.push(x);
        }
    }
    let (uset, all_reqs) = rf.first_choice_closure(&hard.reqs, &start)?;
    // soft-named solvables get NO exemption here: demand full validity (conservative)
    if !rf.check(&hard, &uset, &[]).is_empty() {
        return None;
    }
    for (r, f) in all_reqs {
        let inn: Vec<u32> = rf.sorted_req(r).into_iter().filter(|s| uset.contains(s)).collect();
        if inn.len() != 1 || inn[0] != f {
            return None;
        }
    }
    Some(uset)
}

impl Monitor for C14 {
    type Case = C14Case;
    fn id(&self) -> &'static str {
        "C14"
    }
    fn rule(&self) -> String {
        "cases = seeded universes with soft lists (compatible, incompatible, duplicates, other versions of installed packages, two versions of an unrequested package, excluded, locked-out, Unknown-dependency solvables), sync and async; lists of length <= 4 are additionally run in EVERY order. Oracle: (i) if a brute-force search finds the hard problem solvable the call returns Ok; (ii) the result is valid by the reference rules (soft-named solvables exempt from their own package's lock/exclusion list only; one solvable per package and Unknown-dependency rejection always) plus hook invariants; (iii) if the hard problem is conflict-free and the union of its first-choice closure with the closures of all soft solvables is valid with every requirement met exactly by its first choice, every soft solvable is in the result; (iv) hard part of the result is unchanged in validity terms. distinct = content hash incl. soft order; non-trivial = distinct case whose list had >= 1 accepted and >= 1 rejected soft solvable".into()
    }
    fn cases(&self, tier: Tier) -> u64 {
        tier.pick(200_000, 4_000_000)
    }
    fn floor(&self, tier: Tier) -> u64 {
        tier.pick(4_000, 40_000)
    }
    fn generate(&self, r: &mut Rng, _tier: Tier, i: u64) -> C14Case {
        let (name, _) = pick_family(r, FAMILIES);
        let cfg = match name {
            "lazy-soft" => gener::GenCfg::lazy().with_soft(4),
            "medium-soft" => gener::GenCfg::medium().with_soft(4),
            n => family(n),
        };
        let (name, (u, mut p)) = if r.chance(1, 12) { ("soft-backjump", gener::soft_backjump(r)) } else if r.chance(1, 10) { ("soft-learn-reject", gener::soft_learn_reject(r)) } else if r.chance(1, 10) { ("soft-exempt", gener::soft_exempt(r)) } else { (name, gener::generate(r, &cfg)) };
        if p.soft.is_empty() && !u.solvs.is_empty() {
            p.soft.push(r.below(u.solvs.len() as u64) as u32);
        }
        let permute = i % 5 == 0 && p.soft.len() <= 4;
        C14Case { family: name.into(), u, p, permute, runs: standard_runs(r, 1) }
    }
    fn check(&self, c: &C14Case, ctx: &mut Ctx) {
        let u = Rc::new(c.u.clone());
        let rf = Ref::new(&u);
        ctx.rep.count(&format!("family:{}", c.family));
        let hard = c.p.hard();
        let hard_exists = rf.exists(&hard, &[], super::c02::EXISTS_BUDGET);
        if matches!(hard_exists, Exists::Unknown) {
            ctx.rep.inconclusive("brute force budget exceeded");
            return;
        }
        let incl = inclusion_precondition(&rf, &c.p);
        if incl.is_some() {
            ctx.rep.count("inclusion-precondition-holds");
        }
        let orders = if c.permute { permutations(&c.p.soft) } else { vec![c.p.soft.clone()] };
        if c.permute {
            ctx.rep.add("permutations-run", orders.len() as u64);
        }
        for order in &orders {
            let p = Prob { soft: order.clone(), ..c.p.clone() };
            let h = u.content_hash(&p);
            ctx.rep.distinct.insert(h);
            for (k, opts) in c.runs.iter().enumerate() {
                if c.permute && k > 0 {
                    break;
                }
                ctx.rep.evaluations += 1;
                let (sess, out) = solve_once(&u, &p, opts);
                note_outcome(ctx.rep, &out);
                let what = format!("soft order {:?}, run {k} ({:?})", order.iter().map(|&s| u.solv_label(s)).collect::<Vec<_>>(), opts.mode);
                match &out {
                    Outcome::Unsat(_) => {
                        if hard_exists.is_sat() {
                            ctx.violation("soft requirements turned a solvable problem into an error", what.clone());
                        }
                    }
                    Outcome::Ok(sol) => {
                        if hard_exists.is_unsat() {
                            ctx.violation("Ok although the hard problem has no solution", what.clone());
                        }
                        super::c01::check_ok("invalid:", &rf, &p, sol, &sess, ctx, &what);
                        let set: BTreeSet<u32> = sol.iter().copied().collect();
                        let accepted = order.iter().filter(|x| set.contains(x)).count();
                        let rejected = order.len() - accepted;
                        ctx.rep.add("soft-accepted", accepted as u64);
                        ctx.rep.add("soft-rejected", rejected as u64);
                        if accepted >= 1 && rejected >= 1 {
                            ctx.rep.nontrivial.insert(h);
                        }
                        if let Some(uset) = &incl {
                            let missing: Vec<String> = order.iter().filter(|x| !set.contains(x)).map(|&s| u.solv_label(s)).collect();
                            if !missing.is_empty() {
                                ctx.violation(
                                    "compatible soft solvable not included",
                                    format!("{what}: {:?} missing; compatible union {:?}; got {:?}", missing, uset.iter().map(|&s| u.solv_label(s)).collect::<Vec<_>>(), sol.iter().map(|&s| u.solv_label(s)).collect::<Vec<_>>()),
                                );
                            }
                        }
                        // (iii-b) a soft solvable WITHOUT requirements that could simply be added to the
                        // returned set (the set stays valid by the reference rules, soft exemption
                        // included) must not have been dropped: trying it cannot fail for any reason
                        // that lies in the problem itself
                        for &x in order.iter() {
                            if set.contains(&x) {
                                continue;
                            }
                            // nothing new has to be installed for x: it has no requirements, or every
                            // requirement is already met by a solvable of the returned set (the closure
                            // of x on top of that set is x itself). Its requirements / constrains may
                            // mention packages (fetching their candidates can reveal the lock / exclusion
                            // list of a soft-named solvable accepted earlier, which keeps its exemption:
                            // D15, D19) - whether x fits is decided by the reference rules below
                            let free = matches!(&u.solvs[x as usize].deps, Deps::Known { reqs, .. } if reqs.iter().all(|&r| rf.req_has(r, |s| set.contains(&s))));
                            if !free {
                                continue;
                            }
                            if matches!(&u.solvs[x as usize].deps, Deps::Known { reqs, .. } if !reqs.is_empty()) {
                                ctx.rep.count("soft-solvables-with-already-met-requirements-rejected");
                            }
                            if matches!(&u.solvs[x as usize].deps, Deps::Known { cons, .. } if !cons.is_empty()) {
                                ctx.rep.count("requirement-free-soft-solvables-with-constrains-rejected");
                            }
                            ctx.rep.count("requirement-free-soft-solvables-rejected");
                            let mut plus: Vec<u32> = sol.clone();
                            plus.push(x);
                            // x itself gets no exemption here: whether its package-level lock /
                            // exclusion applies depends on whether the package was requested, so the
                            // rule only speaks about solvables that are acceptable either way
                            let others: Vec<u32> = p.soft.iter().copied().filter(|&s| s != x).collect();
                            if rf.check(&p, &plus, &others).is_empty() {
                                ctx.violation(
                                    "installable dependency-free soft solvable dropped",
                                    format!("{what}: {} could be added to {:?} without violating any rule", u.solv_label(x), sol.iter().map(|&s| u.solv_label(s)).collect::<Vec<_>>()),
                                );
                            }
                        }
                        let hs = hook_stats(&sess);
                        if hs.conflicts > 0 {
                            ctx.rep.count("runs-where-soft-or-hard-search-backjumped");
                        }
                        if k == 0 && accepted >= 1 && rejected >= 1 {
                            ctx.rep.sample(|| json!({"universe": universe_text(&u), "problem": problem_text(&u, &p), "solution": sol.iter().map(|&s| u.solv_label(s)).collect::<Vec<_>>()}));
                        }
                    }
                    Outcome::Panic(_) | Outcome::Budget | Outcome::Deadlock => {
                        // "never turns a solvable problem into an error": if the hard problem alone
                        // is answered with Ok by the same kind of run, the soft list is to blame
                        let (_s, alone) = solve_once(&u, &hard, opts);
                        if matches!(alone, Outcome::Ok(_)) && hard_exists.is_sat() {
                            let how = match &out {
                                Outcome::Panic(pi) => format!("panic {}", pi.signature()),
                                o => o.tag().to_string(),
                            };
                            ctx.violation("soft requirements turned a solvable problem into a crash / hang", format!("{what}: {how}"));
                        } else {
                            ctx.rep.count("not-a-verdict (see C04/C10)");
                        }
                    }
                    Outcome::Cancelled(_) => ctx.violation("Cancelled without a signal", what.clone()),
                }
            }
        }
    }
}
