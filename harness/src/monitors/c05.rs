//! C05 — solutions contain no extraneous solvables.
use std::{collections::BTreeSet, rc::Rc};

use serde_json::json;

use super::*;
use crate::{
    campaign::Monitor,
    gener,
    reference::Ref,
    report::{Ctx, Tier},
    run::{Outcome, solve_once},
};

pub struct C05;

pub const FAMILIES: &[(&str, u64)] = &[
    ("tiny", 1),
    ("tiny-hints", 1),
    ("tiny-soft", 2),
    ("medium", 3),
    ("medium-hints", 2),
    ("conf", 5),
    ("conf-hints", 3),
    ("conf-soft", 3),
    ("deep", 5),
    ("deep-hints", 2),
    ("hostile", 1),
    ("lazy-soft", 2),
    ("medium-soft", 2),
    ("union-conf", 6),
    ("union-conf-hints", 4),
];

impl Monitor for C05 {
    type Case = SolverCase;
    fn id(&self) -> &'static str {
        "C05"
    }
    fn rule(&self) -> String {
        "cases = seeded random universes weighted to families that backtrack (medium / constrains-heavy / layered) with and without hints and soft lists, run synchronously and under an async schedule with random activity parameters; for every Ok result the reference `support` set (reachability from root requirements and accepted soft solvables over requirement edges whose satisfying candidate is in the solution) must equal the solution; hook monitor: every implied assignment on the final trail has a reason clause that contains it and was unit. a quarter of the cases additionally solve a different problem (two arbitrary version sets of the universe) on the same solver first and judge the second solution the same way; distinct = content hash; non-trivial = distinct Ok case with >= 1 conflict (backjump) or restart and |solution| >= 3".into()
    }
    fn cases(&self, tier: Tier) -> u64 {
        tier.pick(320_000, 6_400_000)
    }
    fn floor(&self, tier: Tier) -> u64 {
        tier.pick(1_200, 12_000)
    }
    fn generate(&self, r: &mut Rng, _tier: Tier, _i: u64) -> SolverCase {
        let (name, cfg) = pick_family(r, FAMILIES);
        // shaped family: a soft requirement whose run learns clauses and is rejected afterwards,
        // followed by further soft requirements (learnt clauses outlive the rejected attempt)
        let (name, (u, p)) = if r.chance(1, 25) { ("union-abandon", gener::union_abandon(r)) } else if r.chance(1, 30) { ("conflict-chain", gener::conflict_chain(r)) } else if r.chance(1, 10) { ("soft-backjump", gener::soft_backjump(r)) } else if r.chance(1, 6) { ("soft-learn-reject", gener::soft_learn_reject(r)) } else { (name, gener::generate(r, &cfg)) };
        SolverCase { family: name.into(), u, p, runs: standard_runs(r, 1) }
    }
    fn check(&self, c: &SolverCase, ctx: &mut Ctx) {
        let u = Rc::new(c.u.clone());
        let rf = Ref::new(&u);
        let h = u.content_hash(&c.p);
        ctx.rep.distinct.insert(h);
        ctx.rep.count(&format!("family:{}", c.family));
        for (k, opts) in c.runs.iter().enumerate() {
            ctx.rep.evaluations += 1;
            let (sess, out) = solve_once(&u, &c.p, opts);
            note_outcome(ctx.rep, &out);
            let Outcome::Ok(sol) = &out else { continue };
            let set: BTreeSet<u32> = sol.iter().copied().collect();
            let reach = rf.support(&c.p, sol);
            ctx.rep.add("solution-solvables-checked", set.len() as u64);
            if reach != set {
                let extra: Vec<String> = set.difference(&reach).map(|&s| u.solv_label(s)).collect();
                ctx.violation("extraneous-solvable", format!("run {k} ({:?}): {:?} not needed by anything in {:?}", opts.mode, extra, sol.iter().map(|&s| u.solv_label(s)).collect::<Vec<_>>()));
            }
            // mechanism monitor (anchor: "positive literals are only ever implied through Requires
            // and learnt clauses"): every implied assignment on the final trail must have a reason
            // clause that contains it and was unit when it fired
            let d = sess.solver.verif_dump();
            for v in crate::hooks::trail_reasons(&d) {
                ctx.violation("h1-assignment-implied-without-a-unit-reason", format!("run {k} ({:?}): {v}", opts.mode));
            }
            ctx.rep.add("h1:trail-entries-checked", d.trail.len() as u64);
            // anchor "positive literals are only ever implied through Requires and learnt clauses":
            // a learnt clause that says more than the clauses it was derived from is where an
            // unneeded install comes from, long before (and far more often than) one surfaces in a
            // solution. Every learnt clause of a hard-only problem must be derivable by unit
            // propagation from the clauses allocated before it (clauses learnt while trying a soft
            // requirement may legitimately lean on decisions of earlier runs and are not judged).
            if c.p.soft.is_empty() && d.clauses.iter().any(|c| matches!(c.kind, resolvo::verif::VerifKind::Learnt)) {
                match crate::hooks::rup_check(&d, false) {
                    Ok(st) => ctx.rep.add("rup:learnt-clauses-checked", st.learnt_checked),
                    Err(e) => ctx.violation("h1-rup-failed", format!("run {k} ({:?}): {e}", opts.mode)),
                }
            }
            let hs = hook_stats(&sess);
            if (hs.conflicts >= 1 || hs.restarts >= 1) && sol.len() >= 3 {
                ctx.rep.nontrivial.insert(h);
                ctx.rep.count("ok-after-backjump-or-restart");
                if k == 0 {
                    ctx.rep.sample(|| json!({"universe": universe_text(&u), "problem": problem_text(&u, &c.p), "solution": sol.iter().map(|&s| u.solv_label(s)).collect::<Vec<_>>(), "conflicts": hs.conflicts, "restarts": hs.restarts}));
                }
            }
            if hs.max_backjump >= 2 {
                ctx.rep.count("ok-with-multi-level-backjump");
            }
        }
        // "no extraneous solvables" also on a solver that has solved something ELSE before: whatever
        // an earlier, different problem selected must not linger in the next solution
        if h % 4 == 1 && !c.u.vsets.is_empty() {
            let nv = c.u.vsets.len() as u64;
            let other = Prob { reqs: vec![Req::Single((h / 7 % nv) as u32), Req::Single((h / 97 % nv) as u32)], cons: vec![], soft: vec![] };
            let mut sess = crate::run::Session::new(u.clone(), &c.runs[0]);
            let _ = sess.solve(&other);
            ctx.rep.evaluations += 1;
            let out = sess.solve(&c.p);
            if let Outcome::Ok(sol) = &out {
                ctx.rep.count("ok-on-a-solver-that-solved-a-different-problem-before");
                let set: BTreeSet<u32> = sol.iter().copied().collect();
                let reach = rf.support(&c.p, sol);
                if reach != set {
                    let extra: Vec<String> = set.difference(&reach).map(|&s| u.solv_label(s)).collect();
                    ctx.violation("extraneous-solvable (solver reused after a different problem)", format!("first {}, then the problem: {:?} not needed by anything in {:?}", problem_text(&u, &other), extra, sol.iter().map(|&s| u.solv_label(s)).collect::<Vec<_>>()));
                }
            }
        }
    }
}
