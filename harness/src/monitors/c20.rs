//! C20 — SolverCache answers are consistent with the provider and stable.
use std::{
    collections::{BTreeMap, BTreeSet},
    rc::Rc,
};

use futures::FutureExt;
use resolvo::runtime::AsyncRuntime as _;
use resolvo::{NameId, Requirement, SolvableId, SolverCache, VersionSetId, VersionSetUnionId};
use serde::{Deserialize, Serialize};
use serde_json::json;

use super::*;
use crate::{
    campaign::Monitor,
    gener,
    reference::Ref,
    report::{Ctx, Tier},
    run::{Caught, Outcome, catch, solve_once},
};

pub struct C20;

#[derive(Clone, Debug, Serialize, Deserialize)]
pub enum Q {
    Candidates(u32),
    Matching(u32),
    NonMatching(u32),
    Sorted(u32),
    SortedUnion(u32),
    Dependencies(u32),
}

#[derive(Clone, Debug, Serialize, Deserialize)]
pub struct C20Case {
    pub family: String,
    pub u: Universe,
    pub p: Prob,
    pub queries: Vec<Q>,
}

pub const FAMILIES: &[(&str, u64)] = &[("tiny-hints", 3), ("lazy-hints", 3), ("medium-hints", 2), ("hostile", 2), ("tiny", 1), ("many-hints", 1)];

/// Called from inside `Prov::sort_candidates` when `reentrant_sort` is set: query the cache that
/// is in the middle of computing a sorted list, and judge the answers by the reference.
pub async fn reentrant_queries(prov: &Prov, cache: &SolverCache<Prov>, solvables: &[SolvableId]) {
    let u = prov.u.clone();
    let rf = Ref::new(&u);
    let mut obs = vec![];
    let mut n = 0u64;
    // availability of EVERY solvable at this moment, judged against the provider's own log: true
    // exactly for solvables whose dependencies the provider has returned or that a fetched
    // package hints (a request that is merely pending is neither)
    {
        let (mut fetched, mut hinted): (BTreeSet<u32>, BTreeSet<u32>) = Default::default();
        for e in prov.sched.log.borrow().iter() {
            match e {
                Ev::DepsRet(s) => {
                    fetched.insert(*s);
                }
                Ev::CandRet(nm) => {
                    let pk = &u.pkgs[*nm as usize];
                    if let Some(c) = &pk.candidates {
                        match &pk.hint {
                            Hint::None => {}
                            Hint::All => hinted.extend(c.iter().copied()),
                            Hint::Some(v) => hinted.extend(v.iter().copied()),
                        }
                    }
                }
                _ => {}
            }
        }
        for s in 0..u.solvs.len() as u32 {
            n += 1;
            let exp = fetched.contains(&s) || hinted.contains(&s);
            if cache.are_dependencies_available_for(SolvableId(s)) != exp {
                obs.push(format!("are_dependencies_available_for(s{s}) is {} but the solvable is {}", !exp, if exp { "hinted or fetched" } else { "neither hinted nor fetched" }));
            }
        }
    }
    // an impatient provider: starts dependency queries, polls each once and - when they are not
    // ready - keeps them alive while it waits for its other queries (so that requests of the solver
    // for the same solvable queue up behind them), then abandons them: what a timeout or select!
    // does. Whoever waits on such a request has to start over.
    let mut held = vec![];
    let mut held_ids: Vec<SolvableId> = vec![];
    if prov.abandon.get() {
        for &s in solvables.iter().rev().take(2) {
            let mut fut = Box::pin(provider_side(prov, cache.get_or_cache_dependencies(s)));
            if std::future::poll_fn(|cx| std::task::Poll::Ready(std::future::Future::poll(fut.as_mut(), cx))).await.is_pending() {
                prov.abandoned.set(prov.abandoned.get() + 1);
                held.push(fut);
                held_ids.push(s);
            }
        }
    }
    for &s in solvables.iter().take(3) {
        let name = u.solvs[s.0 as usize].name;
        // the package being sorted is already cached: must not hit the provider again
        if let Ok(c) = provider_side(prov, cache.get_or_cache_candidates(NameId(name))).await {
            n += 1;
            let exp: Vec<u32> = u.pkgs[name as usize].candidates.clone().unwrap_or_default();
            if c.candidates.iter().map(|x| x.0).collect::<Vec<_>>() != exp {
                obs.push(format!("re-entrant candidates of {} differ from the provider's list", u.pkgs[name as usize].name));
            }
        }
        // dependencies of the solvables being sorted (a real provider does this to break ties);
        // never wait for a request this provider itself is sitting on
        if held_ids.contains(&s) {
            continue;
        }
        if let Ok(_d) = provider_side(prov, cache.get_or_cache_dependencies(s)).await {
            n += 1;
            if !cache.are_dependencies_available_for(s) {
                obs.push(format!("dependencies of s{} fetched re-entrantly but reported unavailable", s.0));
            }
        }
    }
    // matching / non-matching of a few other version sets (may fetch other packages re-entrantly)
    for v in (0..u.vsets.len() as u32).filter(|v| (*v as usize + solvables.len()) % 3 == 0).take(3) {
        if let Ok(m) = provider_side(prov, cache.get_or_cache_matching_candidates(VersionSetId(v))).await {
            n += 1;
            if m.iter().map(|x| x.0).collect::<Vec<_>>() != rf.cands_vs(v) {
                obs.push(format!("re-entrant matching candidates of vs{v} differ from filter_candidates"));
            }
        }
        if let Ok(m) = provider_side(prov, cache.get_or_cache_non_matching_candidates(VersionSetId(v))).await {
            n += 1;
            if m.iter().map(|x| x.0).collect::<Vec<_>>() != rf.noncands_vs(v) {
                obs.push(format!("re-entrant non-matching candidates of vs{v} differ from filter_candidates"));
            }
        }
    }
    if !held.is_empty() {
        prov.log(Ev::ProviderDrops(true));
        drop(held);
        prov.log(Ev::ProviderDrops(false));
    }
    prov.reentrant_queries.set(prov.reentrant_queries.get() + n);
    prov.reentrant_obs.borrow_mut().extend(obs);
}

fn ids(s: &[SolvableId]) -> Vec<u32> {
    s.iter().map(|x| x.0).collect()
}

impl Monitor for C20 {
    type Case = C20Case;
    fn id(&self) -> &'static str {
        "C20"
    }
    fn rule(&self) -> String {
        "cases = seeded universes (hints All/Some/None, favored candidates that are not rank-first, random ranks, missing packages) and a random sequence of 40 SolverCache queries (candidates / matching / non-matching / sorted single / sorted union / dependencies, repeats frequent) on a bare SolverCache::new(provider); after every query the answer is compared with the reference (partition by filter_candidates, rank order with favored rotated to the front and the rest in unchanged relative order, union = concatenation in member order), are_dependencies_available_for is compared with (fetched or (package fetched and hinted)) for EVERY solvable, and at the end every slice reference returned earlier is re-read and the provider log is checked for a repeated get_candidates / get_dependencies. Second part: the same universe is solved with a provider whose sort_candidates queries the cache RE-ENTRANTLY (candidates of the package being sorted, dependencies of the solvables being sorted, matching / non-matching of other version sets), answers judged the same way and the solve result compared with a plain solve; the re-entrant solve is run synchronously AND under the manual executor with every callback suspending, where re-entrant requests race with the encoder's own (no provider call may be repeated). Third part: OVERLAPPING cache queries on a bare cache under the manual executor with a provider whose sort order depends on the cache's state at that moment (prefers candidates whose dependencies are available): 2-3 consumers of one requirement's sorted candidates plus dependency requests of its candidates, started in random order and completed in a scheduled order; all consumers and a later query must be told one identical list, a permutation of the matching candidates that the provider actually answered (favored first), without another sort_candidates call. distinct = content hash incl. queries; non-trivial = case with a favored candidate that is not rank-first among queried packages and >= 1 repeated query".into()
    }
    fn cases(&self, tier: Tier) -> u64 {
        tier.pick(160_000, 3_200_000)
    }
    fn floor(&self, tier: Tier) -> u64 {
        tier.pick(6_000, 60_000)
    }
    fn generate(&self, r: &mut Rng, _tier: Tier, _i: u64) -> C20Case {
        let (name, mut cfg) = pick_family(r, FAMILIES);
        cfg.p_fav = 60;
        cfg.p_rank = 50;
        let (u, p) = gener::generate(r, &cfg);
        // one case in 150: ids spread over a huge range (hint bit vectors, id-indexed tables)
        let (name, (u, p)) = if r.chance(1, 600) && !crate::report::small() {
            let perms = gener::huge_perms(&u, r);
            ("huge-ids", u.renumber(&p, &perms[0], &perms[1], &perms[2], &perms[3], &perms[4]))
        } else {
            (name, (u, p))
        };
        let mut queries = vec![];
        for _ in 0..40 {
            let q = match r.below(8) {
                0 => Q::Candidates(r.below(u.pkgs.len() as u64) as u32),
                1 | 2 if !u.vsets.is_empty() => Q::Matching(r.below(u.vsets.len() as u64) as u32),
                3 if !u.vsets.is_empty() => Q::NonMatching(r.below(u.vsets.len() as u64) as u32),
                4 | 5 if !u.vsets.is_empty() => Q::Sorted(r.below(u.vsets.len() as u64) as u32),
                6 if !u.unions.is_empty() => Q::SortedUnion(r.below(u.unions.len() as u64) as u32),
                _ => Q::Dependencies(r.below(u.solvs.len() as u64) as u32),
            };
            queries.push(q);
        }
        C20Case { family: name.into(), u, p, queries }
    }
    fn check(&self, c: &C20Case, ctx: &mut Ctx) {
        let u = Rc::new(c.u.clone());
        let rf = Ref::new(&u);
        use std::hash::{Hash, Hasher};
        let mut hh = std::collections::hash_map::DefaultHasher::new();
        c.u.hash(&mut hh);
        format!("{:?}", c.queries).hash(&mut hh);
        let h = hh.finish();
        ctx.rep.distinct.insert(h);
        ctx.rep.count(&format!("family:{}", c.family));
        ctx.rep.evaluations += 1;
        let mut vio: Vec<(String, String)> = vec![];
        let mut repeated = 0u64;
        let mut fav_not_first = false;
        let r = catch(|| {
            let cache = SolverCache::new(Prov::new(u.clone()));
            let mut bad = |k: &str, d: String| {
                if vio.len() < 10 {
                    vio.push((k.to_string(), d));
                }
            };
            let mut fetched: BTreeSet<u32> = BTreeSet::new();
            let mut fetched_pk: BTreeSet<u32> = BTreeSet::new();
            let mut seen_q: BTreeSet<String> = BTreeSet::new();
            let mut held: Vec<(String, &[SolvableId], Vec<u32>)> = vec![];
            let fav_check = |v: u32| -> bool {
                let pk = &u.pkgs[u.vsets[v as usize].name as usize];
                match pk.favored {
                    Some(f) => {
                        let m = rf.cands_vs(v);
                        m.contains(&f) && m.iter().any(|&o| u.solvs[o as usize].rank < u.solvs[f as usize].rank)
                    }
                    None => false,
                }
            };
            for (qi, q) in c.queries.iter().enumerate() {
                if !seen_q.insert(format!("{:?}", q)) {
                    repeated += 1;
                }
                match q {
                    Q::Candidates(n) => {
                        let cands = cache.get_or_cache_candidates(NameId(*n)).now_or_never().unwrap().unwrap();
                        fetched_pk.insert(*n);
                        let pk = &u.pkgs[*n as usize];
                        let exp: Vec<u32> = pk.candidates.clone().unwrap_or_default();
                        if ids(&cands.candidates) != exp {
                            bad("cached candidate list differs from get_candidates", format!("query {qi}: package {}", pk.name));
                        }
                        if pk.candidates.is_some() && (cands.favored.map(|s| s.0) != pk.favored || cands.locked.map(|s| s.0) != pk.locked) {
                            bad("cached favored / locked differ from get_candidates", format!("query {qi}: package {}", pk.name));
                        }
                    }
                    Q::Matching(v) | Q::NonMatching(v) => {
                        fetched_pk.insert(u.vsets[*v as usize].name);
                        let m = cache.get_or_cache_matching_candidates(VersionSetId(*v)).now_or_never().unwrap().unwrap();
                        let nm = cache.get_or_cache_non_matching_candidates(VersionSetId(*v)).now_or_never().unwrap().unwrap();
                        if ids(m) != rf.cands_vs(*v) {
                            bad("matching candidates differ from filter_candidates", format!("query {qi}: vs{v}: {:?} vs {:?}", ids(m), rf.cands_vs(*v)));
                        }
                        if ids(nm) != rf.noncands_vs(*v) {
                            bad("non-matching candidates differ from filter_candidates(inverse)", format!("query {qi}: vs{v}: {:?} vs {:?}", ids(nm), rf.noncands_vs(*v)));
                        }
                        let all: BTreeSet<u32> = u.pkgs[u.vsets[*v as usize].name as usize].candidates.clone().unwrap_or_default().into_iter().collect();
                        let ms: BTreeSet<u32> = ids(m).into_iter().collect();
                        let ns: BTreeSet<u32> = ids(nm).into_iter().collect();
                        if !ms.is_disjoint(&ns) || ms.union(&ns).copied().collect::<BTreeSet<_>>() != all {
                            bad("matching and non-matching lists do not partition the candidate list", format!("query {qi}: vs{v}"));
                        }
                        held.push((format!("matching vs{v}"), m, ids(m)));
                        held.push((format!("non-matching vs{v}"), nm, ids(nm)));
                    }
                    Q::Sorted(v) => {
                        fetched_pk.insert(u.vsets[*v as usize].name);
                        let s = cache.get_or_cache_sorted_candidates(Requirement::Single(VersionSetId(*v))).now_or_never().unwrap().unwrap();
                        if ids(s) != rf.sorted_vs(*v) {
                            bad("sorted candidates differ from rank order with favored first", format!("query {qi}: vs{v}: {:?} vs {:?}", ids(s), rf.sorted_vs(*v)));
                        }
                        if fav_check(*v) {
                            fav_not_first = true;
                        }
                        held.push((format!("sorted vs{v}"), s, ids(s)));
                    }
                    Q::SortedUnion(un) => {
                        for &v in &u.unions[*un as usize] {
                            fetched_pk.insert(u.vsets[v as usize].name);
                            if fav_check(v) {
                                fav_not_first = true;
                            }
                        }
                        let s = cache.get_or_cache_sorted_candidates(Requirement::Union(VersionSetUnionId(*un))).now_or_never().unwrap().unwrap();
                        let exp = rf.sorted_req(Req::Union(*un));
                        if ids(s) != exp {
                            bad("sorted candidates of a union differ from the concatenation of its members", format!("query {qi}: union {un}: {:?} vs {:?}", ids(s), exp));
                        }
                        held.push((format!("sorted union {un}"), s, ids(s)));
                    }
                    Q::Dependencies(s) => {
                        let d = cache.get_or_cache_dependencies(SolvableId(*s)).now_or_never().unwrap().unwrap();
                        fetched.insert(*s);
                        let ok = match (&u.solvs[*s as usize].deps, d) {
                            (Deps::Unknown(r), resolvo::Dependencies::Unknown(x)) => *r == x.0,
                            (Deps::Known { reqs, cons }, resolvo::Dependencies::Known(k)) => {
                                k.requirements.iter().map(|&r| from_req(r)).collect::<Vec<_>>() == *reqs && k.constrains.iter().map(|v| v.0).collect::<Vec<_>>() == *cons
                            }
                            _ => false,
                        };
                        if !ok {
                            bad("cached dependencies differ from get_dependencies", format!("query {qi}: s{s}"));
                        }
                    }
                }
                // availability for every solvable: hinted by ANY fetched package (a hint list may name
                // solvables of other packages) or already fetched
                let mut hinted_set: BTreeSet<u32> = BTreeSet::new();
                for &n in &fetched_pk {
                    let pk = &u.pkgs[n as usize];
                    if let Some(c) = &pk.candidates {
                        match &pk.hint {
                            Hint::None => {}
                            Hint::All => hinted_set.extend(c.iter().copied()),
                            Hint::Some(v) => hinted_set.extend(v.iter().copied()),
                        }
                    }
                }
                for s in 0..u.solvs.len() as u32 {
                    let hinted = hinted_set.contains(&s);
                    let exp = fetched.contains(&s) || hinted;
                    if cache.are_dependencies_available_for(SolvableId(s)) != exp {
                        bad("are_dependencies_available_for differs from (hinted or already fetched)", format!("query {qi}: s{s} expected {exp}"));
                    }
                }
            }
            // references handed out earlier must still read the same
            for (what, slice, exp) in &held {
                if ids(slice) != *exp {
                    bad("a slice returned earlier reads differently after later queries", what.clone());
                }
            }
            let log = cache.provider().take_log();
            let mut cnt: BTreeMap<String, u32> = BTreeMap::new();
            for e in &log {
                if let Ev::CandCall(_) | Ev::DepsCall(_) = e {
                    *cnt.entry(format!("{:?}", e)).or_insert(0) += 1;
                }
            }
            for (k, n) in cnt {
                if n > 1 {
                    bad("repeated query consulted the provider again", format!("{k} x{n}"));
                }
            }
            held.len()
        });
        match r {
            Caught::Ok(n) => ctx.rep.add("slice-references-revalidated", n as u64),
            Caught::Panic(pi) => ctx.violation(format!("panic in cache query: {}", pi.signature()), String::new()),
            _ => ctx.violation("cache query did not return", String::new()),
        }
        for (k, d) in vio {
            ctx.violation(k, d);
        }
        ctx.rep.add("queries", c.queries.len() as u64);
        ctx.rep.add("repeated-queries", repeated);
        if fav_not_first && repeated > 0 {
            ctx.rep.nontrivial.insert(h);
        }
        // second part: re-entrant use from sort_candidates during a real solve
        let plain = solve_once(&u, &c.p, &SolveOpts::default()).1;
        let mut sess = crate::run::Session::new(u.clone(), &SolveOpts::default());
        sess.prov().reentrant_sort.set(true);
        let out = sess.solve(&c.p);
        ctx.rep.evaluations += 1;
        ctx.rep.add("re-entrant-queries-from-sort_candidates", sess.prov().reentrant_queries.get());
        for o in sess.prov().reentrant_obs.borrow().iter() {
            ctx.violation("re-entrant cache query gave a wrong answer", o.clone());
        }
        match (&plain, &out) {
            (Outcome::Ok(a), Outcome::Ok(b)) => {
                for v in rf.check(&c.p, b, &c.p.soft) {
                    ctx.violation("solve with re-entrant cache queries returned an invalid solution", v);
                }
                let _ = a;
            }
            (Outcome::Unsat(_), Outcome::Unsat(_)) => {}
            (_, Outcome::Panic(pi)) => {
                if !matches!(plain, Outcome::Panic(_)) {
                    ctx.violation(format!("panic with re-entrant cache queries: {}", pi.signature()), String::new());
                }
            }
            (Outcome::Ok(_), Outcome::Unsat(_)) | (Outcome::Unsat(_), Outcome::Ok(_)) => ctx.violation("verdict changes when sort_candidates queries the cache", String::new()),
            _ => ctx.rep.count("not-a-verdict (see C04)"),
        }
        for d in super::c10::duplicate_calls(&sess.log()) {
            ctx.violation("provider asked twice (re-entrant use)", d);
        }
        // the same under the manual executor: re-entrant queries race with the encoder's own requests
        {
            let mut rr = crate::gener::Rng::new(h);
            let opts = SolveOpts { mode: Mode::Async(random_policy(&mut rr)), pause_mask: PAUSE_ALL, ..SolveOpts::default() };
            let mut sess = crate::run::Session::new(u.clone(), &opts);
            sess.prov().reentrant_sort.set(true);
            sess.prov().abandon.set(h % 2 == 0);
            let out = sess.solve(&c.p);
            ctx.rep.evaluations += 1;
            ctx.rep.add("re-entrant-queries-abandoned-by-the-provider", sess.prov().abandoned.get());
            match (&plain, &out) {
                (Outcome::Ok(_), Outcome::Unsat(_)) | (Outcome::Unsat(_), Outcome::Ok(_)) => ctx.violation("verdict changes when sort_candidates queries the cache (async)", String::new()),
                (Outcome::Ok(_) | Outcome::Unsat(_), Outcome::Cancelled(_)) => ctx.violation("Cancelled without a signal when sort_candidates queries the cache (async)", String::new()),
                (_, Outcome::Ok(b)) => {
                    for v in rf.check(&c.p, b, &c.p.soft) {
                        ctx.violation("solve with re-entrant cache queries returned an invalid solution (async)", v);
                    }
                }
                _ => {}
            }
            if let Outcome::Panic(pi) = &out {
                ctx.violation(format!("panic with re-entrant cache queries (async): {}", pi.signature()), String::new());
            }
            if matches!(out, Outcome::Deadlock) {
                ctx.violation("deadlock with re-entrant cache queries (async)", String::new());
            }
            for o in sess.prov().reentrant_obs.borrow().iter() {
                ctx.violation("re-entrant cache query gave a wrong answer (async)", o.clone());
            }
            for d in super::c10::duplicate_calls(&sess.log()) {
                ctx.violation("provider asked twice (re-entrant use, async)", d);
            }
        }
        // third part: OVERLAPPING queries on a bare cache under the manual executor, with a provider
        // whose sort order depends on what the cache holds at that moment (it prefers candidates
        // whose dependencies are available): several consumers ask for the sorted candidates of one
        // requirement while dependency requests of its candidates complete in between. Every
        // consumer and every later query must be told the same list, and that list must be one the
        // provider actually answered (favored candidate moved to the front).
        for q in c.queries.iter().filter(|q| matches!(q, Q::Sorted(_) | Q::SortedUnion(_))).take(2) {
            let req = match q {
                Q::Sorted(v) => Req::Single(*v),
                Q::SortedUnion(un) => Req::Union(*un),
                _ => unreachable!(),
            };
            let expected_set: BTreeSet<u32> = rf.sorted_req(req).into_iter().collect();
            if expected_set.len() < 2 {
                continue;
            }
            let mut rr = crate::gener::Rng::new(h ^ 0x0c20_0c20 ^ expected_set.len() as u64);
            let prov = Prov::new(u.clone());
            prov.pause_mask.set(PAUSE_ALL);
            prov.stateful_sort.set(true);
            let rt = crate::sched::ManualRt::new(prov.sched.clone(), random_policy(&mut rr));
            let cache = SolverCache::new(prov);
            let cref = &cache;
            let r = catch(|| {
                type Fut<'a> = std::pin::Pin<Box<dyn std::future::Future<Output = Option<Vec<u32>>> + 'a>>;
                let mut futs: Vec<Fut> = vec![];
                let consumers = 2 + rr.below(2) as usize;
                for _ in 0..consumers {
                    futs.push(Box::pin(async move { cref.get_or_cache_sorted_candidates(to_req(req)).await.ok().map(ids) }));
                }
                for &s in expected_set.iter().filter(|_| rr.chance(1, 2)).take(3) {
                    futs.push(Box::pin(async move {
                        let _ = cref.get_or_cache_dependencies(SolvableId(s)).await;
                        None
                    }));
                }
                // random start order
                for i in (1..futs.len()).rev() {
                    futs.swap(i, rr.below(i as u64 + 1) as usize);
                }
                let outs: Vec<Vec<u32>> = rt.block_on(futures::future::join_all(futs)).into_iter().flatten().collect();
                let sorts_before = cref.provider().take_log().iter().filter(|e| matches!(e, Ev::Sort(_))).count();
                let again = rt.block_on(cref.get_or_cache_sorted_candidates(to_req(req))).ok().map(ids);
                let sorts_after = cref.provider().take_log().iter().filter(|e| matches!(e, Ev::Sort(_))).count();
                (outs, again, sorts_after - sorts_before)
            });
            ctx.rep.evaluations += 1;
            match r {
                Caught::Ok((outs, again, new_sorts)) => {
                    ctx.rep.count("overlapping-sorted-queries-with-a-state-dependent-sort");
                    let log = cache.provider().take_log();
                    let answers: Vec<Vec<u32>> = log.iter().filter_map(|e| if let Ev::SortRet(v) = e { Some(v.clone()) } else { None }).collect();
                    if answers.iter().collect::<BTreeSet<_>>().len() > 1 {
                        ctx.rep.count("overlapping:provider-gave-different-orders-for-one-input");
                    }
                    let first = outs.first().cloned().unwrap_or_default();
                    if outs.iter().any(|o| *o != first) {
                        ctx.violation("overlapping queries for one requirement were told different sorted candidates", format!("{:?}: {:?}", req, outs));
                    }
                    if again.as_ref() != Some(&first) {
                        ctx.violation("a repeated query returns different sorted candidates than the overlapping queries were told", format!("{:?}: {:?} then {:?}", req, first, again));
                    }
                    if new_sorts != 0 {
                        ctx.violation("repeated query consulted the provider again", format!("{:?}: sort_candidates called again", req));
                    }
                    let (mut a, mut b) = (first.clone(), rf.sorted_req(req));
                    a.sort();
                    b.sort();
                    if a != b {
                        ctx.violation("sorted candidates are not a permutation of the matching candidates", format!("{:?}: {:?}", req, first));
                    }
                    if let Req::Single(v) = req {
                        // one of the provider's answers for this input, favored moved to the front
                        let fav = u.pkgs[u.vsets[v as usize].name as usize].favored;
                        let ok = answers.iter().filter(|a| a.iter().copied().collect::<BTreeSet<u32>>() == expected_set).any(|a| {
                            let mut a = a.clone();
                            if let Some(pos) = fav.and_then(|f| a.iter().position(|&x| x == f)) {
                                a[..=pos].rotate_right(1);
                            }
                            a == first
                        });
                        if !ok {
                            ctx.violation("sorted candidates are not an order sort_candidates answered (favored first)", format!("vs{v}: {:?}, provider answered {:?}", first, answers));
                        }
                    }
                    for d in super::c10::duplicate_calls(&log) {
                        ctx.violation("provider asked twice (overlapping cache queries)", d);
                    }
                }
                Caught::Panic(pi) => ctx.violation(format!("panic in overlapping cache queries: {}", pi.signature()), format!("{:?}", req)),
                Caught::Deadlock => ctx.violation("deadlock in overlapping cache queries", format!("{:?}", req)),
                Caught::Budget => ctx.rep.count("overlapping:budget"),
            }
        }
        ctx.rep.sample(|| json!({"universe": universe_text(&u), "queries": c.queries.iter().take(10).map(|q| format!("{:?}", q)).collect::<Vec<_>>()}));
    }
}
