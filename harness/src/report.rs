//! What a campaign observed: counters, distinct/non-trivial case sets, samples, violations.
use std::collections::{BTreeMap, BTreeSet, HashSet};

use serde_json::{Value, json};

/// Set for runs under slow interpreters (Miri): generators produce smaller cases.
pub static SMALL: std::sync::atomic::AtomicBool = std::sync::atomic::AtomicBool::new(false);
pub fn small() -> bool {
    SMALL.load(std::sync::atomic::Ordering::Relaxed)
}

#[derive(Clone, Copy, Debug, PartialEq, Eq)]
pub enum Tier {
    Quick,
    Thorough,
}

impl Tier {
    pub fn name(self) -> &'static str {
        match self {
            Tier::Quick => "quick",
            Tier::Thorough => "thorough",
        }
    }
    pub fn pick<T>(self, q: T, t: T) -> T {
        match self {
            Tier::Quick => q,
            Tier::Thorough => t,
        }
    }
}

#[derive(Clone, Debug)]
pub struct Violation {
    /// stable signature of what went wrong (used for dedup and known-finding matching)
    pub kind: String,
    pub detail: String,
    pub case_seed: u64,
    pub case: Value,
}

#[derive(Default)]
pub struct Report {
    pub evaluations: u64,
    pub cases: u64,
    pub distinct: HashSet<u64>,
    pub nontrivial: HashSet<u64>,
    pub counters: BTreeMap<String, u64>,
    pub maxima: BTreeMap<String, u64>,
    pub sets: BTreeMap<String, HashSet<u64>>,
    pub samples: Vec<Value>,
    pub violations: Vec<Violation>,
    pub violation_counts: BTreeMap<String, u64>,
    pub inconclusive: BTreeMap<String, u64>,
    pub notes: BTreeSet<String>,
    pub exhaustive: Option<bool>,
}

pub const MAX_SAMPLES: usize = 4;
pub const MAX_VIOLATIONS_PER_KIND: u64 = 3;

impl Report {
    pub fn count(&mut self, k: &str) {
        *self.counters.entry(k.to_string()).or_insert(0) += 1;
    }
    pub fn add(&mut self, k: &str, n: u64) {
        *self.counters.entry(k.to_string()).or_insert(0) += n;
    }
    pub fn max(&mut self, k: &str, v: u64) {
        let e = self.maxima.entry(k.to_string()).or_insert(0);
        *e = (*e).max(v);
    }
    pub fn set_insert(&mut self, k: &str, h: u64) {
        self.sets.entry(k.to_string()).or_default().insert(h);
    }
    pub fn inconclusive(&mut self, why: &str) {
        *self.inconclusive.entry(why.to_string()).or_insert(0) += 1;
    }
    pub fn sample(&mut self, v: impl FnOnce() -> Value) {
        if self.samples.len() < MAX_SAMPLES {
            self.samples.push(v());
        }
    }
    pub fn merge(&mut self, o: Report) {
        self.evaluations += o.evaluations;
        self.cases += o.cases;
        self.distinct.extend(o.distinct);
        self.nontrivial.extend(o.nontrivial);
        for (k, v) in o.counters {
            *self.counters.entry(k).or_insert(0) += v;
        }
        for (k, v) in o.maxima {
            let e = self.maxima.entry(k).or_insert(0);
            *e = (*e).max(v);
        }
        for (k, v) in o.sets {
            self.sets.entry(k).or_default().extend(v);
        }
        for s in o.samples {
            if self.samples.len() < MAX_SAMPLES {
                self.samples.push(s);
            }
        }
        for v in o.violations {
            let seen = self.violations.iter().filter(|x| x.kind == v.kind).count() as u64;
            if seen < MAX_VIOLATIONS_PER_KIND {
                self.violations.push(v);
            }
        }
        for (k, v) in o.violation_counts {
            *self.violation_counts.entry(k).or_insert(0) += v;
        }
        for (k, v) in o.inconclusive {
            *self.inconclusive.entry(k).or_insert(0) += v;
        }
        self.notes.extend(o.notes);
        if let Some(e) = o.exhaustive {
            self.exhaustive = Some(self.exhaustive.unwrap_or(true) && e);
        }
    }
    pub fn to_json(&self) -> Value {
        json!({
            "evaluations": self.evaluations,
            "cases": self.cases,
            "distinct": self.distinct.len(),
            "distinct_nontrivial": self.nontrivial.len(),
            "counters": self.counters,
            "maxima": self.maxima,
            "sets": self.sets.iter().map(|(k, v)| (k.clone(), v.len())).collect::<BTreeMap<_, _>>(),
            "samples": self.samples,
            "violation_counts": self.violation_counts,
            "inconclusive": self.inconclusive,
            "notes": self.notes,
            "exhaustive": self.exhaustive,
        })
    }
}

/// Handed to a monitor while it checks one case.
pub struct Ctx<'a> {
    pub rep: &'a mut Report,
    pub case_seed: u64,
    pub tier: Tier,
    pub pending: Vec<(String, String)>,
    /// when replaying, print everything
    pub verbose: bool,
}

impl Ctx<'_> {
    pub fn violation(&mut self, kind: impl Into<String>, detail: impl Into<String>) {
        let (kind, detail) = (kind.into(), detail.into());
        if self.verbose {
            println!("  violated: {kind}: {detail}");
        }
        self.pending.push((kind, detail));
    }
}
