//! Hand-written universes that once exposed a defect (witnesses of D1..D13, see DESIGN section 7).
//! They are run by the `fixed` part of C04 / C01 / C14 on every check.
use crate::universe::*;

pub struct Entry {
    pub name: &'static str,
    pub u: Universe,
    pub p: Prob,
}

fn hint_all(u: &mut Universe) {
    for p in &mut u.pkgs {
        p.hint = Hint::All;
    }
}

/// Witnesses found by the campaigns themselves, kept as serialised cases.
fn from_json(name: &'static str, text: &str) -> Entry {
    let v: serde_json::Value = serde_json::from_str(text).expect("corpus json");
    Entry { name, u: serde_json::from_value(v["u"].clone()).expect("corpus universe"), p: serde_json::from_value(v["p"].clone()).expect("corpus problem") }
}

pub fn all() -> Vec<Entry> {
    let mut out = vec![];

    // D23: six soft requirements, each rejected; the rejection of one is never propagated because
    // its successor is rejected by its first clauses (the undo moved the propagation cursor past
    // it); a later soft solvable whose requirement has only rejected candidates left is accepted
    // and `decide` runs into "all candidates have been assigned false".
    out.push(from_json("D23 unpropagated soft rejection", include_str!("../corpus/d23_unpropagated_soft_rejection.json")));

    // D24: the rejection of a soft requirement is propagated at the start of the NEXT soft run; a
    // conflict (the next soft solvable cannot be installed) interrupts that propagation half-way,
    // only the next run's decision is undone and the remaining clauses watching the rejected
    // solvable are never visited; a requires clause ends up with both watches on rejected solvables.
    out.push(from_json("D24 interrupted propagation of a soft rejection", include_str!("../corpus/d24_interrupted_propagation.json")));

    // D13: a soft run learns a clause whose other literals sit at level 1, back-jumps below the
    // level at which the soft run started, re-decides the hard part by a different route and lands
    // exactly on the starting level again ("already decided").
    {
        let mut u = Universe::default();
        u.solv("r", 1);
        u.solv("a", 2);
        u.solv("a", 1);
        u.solv("e", 1);
        let d1 = u.solv("d", 1);
        let d5 = u.solv("d", 5);
        let d6 = u.solv("d", 6);
        let x1 = u.solv("x", 1);
        let a_lt2 = u.vs("a", 0, 2);
        let r_lt1 = u.vs("r", 0, 1);
        let d_57 = u.vs("d", 5, 7);
        u.add_con(d1, a_lt2);
        u.add_con(d5, r_lt1);
        u.add_con(d6, r_lt1);
        u.add_req(x1, Req::Single(d_57));
        let r_any = u.vs("r", 0, 100);
        let a_any = u.vs("a", 0, 100);
        let d_12 = u.vs("d", 1, 2);
        let e_any = u.vs("e", 0, 100);
        let un = u.union(vec![d_12, e_any]);
        u.finalize();
        out.push(Entry { name: "D13 soft run back-jumps below its starting level", u, p: Prob { reqs: vec![Req::Single(r_any), Req::Single(a_any), Req::Union(un)], cons: vec![], soft: vec![x1] } });
    }

    // D4: two soft solvables of one package that nobody requires
    {
        let mut u = Universe::default();
        let a1 = u.solv("a", 1);
        let a2 = u.solv("a", 2);
        u.solv("r", 1);
        let vr = u.vs("r", 0, 10);
        u.finalize();
        out.push(Entry { name: "D4 two soft solvables of one package", u, p: Prob { reqs: vec![Req::Single(vr)], cons: vec![], soft: vec![a1, a2] } });
    }

    // D5: soft solvable excluded by its own package, which is fetched later through a cycle
    {
        let mut u = Universe::default();
        let x1 = u.solv("x", 1);
        u.solv("x", 2);
        let y1 = u.solv("y", 1);
        u.solv("r", 1);
        let vr = u.vs("r", 0, 10);
        let vy = u.vs("y", 0, 10);
        let vx = u.vs("x", 0, 10);
        u.add_req(x1, Req::Single(vy));
        u.add_req(y1, Req::Single(vx));
        let s = u.string("excluded!");
        let px = u.pkg("x");
        u.pkgs[px as usize].excluded.push((x1, s));
        u.finalize();
        out.push(Entry { name: "D5 soft solvable excluded by a package fetched later", u, p: Prob { reqs: vec![Req::Single(vr)], cons: vec![], soft: vec![x1] } });
    }

    // D6: solvable whose constrains entry on its own package excludes itself
    {
        let mut u = Universe::default();
        let a1 = u.solv("a", 1);
        u.solv("a", 2);
        let va = u.vs("a", 0, 10);
        let va2 = u.vs("a", 2, 3);
        u.add_con(a1, va2);
        u.finalize();
        out.push(Entry { name: "D6 self-excluding constrains", u, p: Prob { reqs: vec![Req::Single(va)], cons: vec![], soft: vec![] } });
    }

    // D8: cyclic unsatisfiable core (renderer)
    {
        let mut u = Universe::default();
        let a1 = u.solv("a", 1);
        let b1 = u.solv("b", 1);
        let va = u.vs("a", 0, 10);
        let vb = u.vs("b", 0, 10);
        let vmissing = u.vs("zzz", 0, 10);
        u.add_req(a1, Req::Single(vb));
        u.add_req(b1, Req::Single(va));
        u.add_req(b1, Req::Single(vmissing));
        u.finalize();
        out.push(Entry { name: "D8 cyclic conflict", u: u.clone(), p: Prob { reqs: vec![Req::Single(va)], cons: vec![], soft: vec![] } });
        let mut h = u;
        hint_all(&mut h);
        out.push(Entry { name: "D8 cyclic conflict, hinted", u: h, p: Prob { reqs: vec![Req::Single(va)], cons: vec![], soft: vec![] } });
    }

    // D10: compatible soft requirement next to an eagerly encoded (hinted) candidate whose
    // constrains entry points at an installed solvable
    {
        let mut u = Universe::default();
        let x1 = u.solv("x", 1);
        u.solv("x", 2);
        u.solv("y", 1);
        let s1 = u.solv("s", 1);
        let vy = u.vs("y", 0, 10);
        let vx = u.vs("x", 0, 10);
        let y_none = u.vs("y", 5, 6);
        u.add_con(x1, y_none); // x=1 forbids y=1
        u.add_req(s1, Req::Single(vx));
        u.finalize();
        hint_all(&mut u);
        out.push(Entry { name: "D10 soft requirement with a hinted alternative that conflicts", u, p: Prob { reqs: vec![Req::Single(vy)], cons: vec![], soft: vec![s1] } });
    }
    out
}
