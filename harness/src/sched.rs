//! Manual single-thread executor. Every provider callback awaits a `Pause` that parks itself;
//! when the solver's future returns `Pending` the executor records the quiescent point and
//! releases exactly one parked future, chosen by the schedule policy.
use std::{
    cell::{Cell, RefCell},
    future::Future,
    pin::Pin,
    rc::Rc,
    sync::{
        Arc,
        atomic::{AtomicBool, Ordering},
    },
    task::{Context, Poll, Wake, Waker},
};

use serde::{Deserialize, Serialize};

use crate::universe::Ev;

pub struct Parked {
    pub id: u64,
    pub tag: Ev,
    pub ready: Rc<Cell<bool>>,
    pub waker: Waker,
}

#[derive(Default)]
pub struct Sched {
    pub parked: RefCell<Vec<Parked>>,
    pub enabled: Cell<bool>,
    pub next_id: Cell<u64>,
    /// The shared, append-only event log (provider events + executor events).
    pub log: RefCell<Vec<Ev>>,
    /// Threaded mode: provider futures are completed by helper threads after random delays
    /// (wakers are called from other threads while the solver thread may be polling).
    pub threaded: Cell<bool>,
    pub trng: Cell<u64>,
    pub outstanding: Arc<std::sync::atomic::AtomicUsize>,
    pub thread_wakes: Cell<u64>,
}

/// Completion flag shared with a helper thread.
pub struct TFlag {
    ready: AtomicBool,
    waker: std::sync::Mutex<Option<Waker>>,
}

struct Job {
    delay_us: u64,
    flag: Arc<TFlag>,
    outstanding: Arc<std::sync::atomic::AtomicUsize>,
}

fn helper_pool() -> &'static std::sync::Mutex<std::sync::mpsc::Sender<Job>> {
    static POOL: std::sync::OnceLock<std::sync::Mutex<std::sync::mpsc::Sender<Job>>> = std::sync::OnceLock::new();
    POOL.get_or_init(|| {
        let (tx, rx) = std::sync::mpsc::channel::<Job>();
        let rx = Arc::new(std::sync::Mutex::new(rx));
        for _ in 0..6 {
            let rx = rx.clone();
            std::thread::spawn(move || {
                loop {
                    let job = match rx.lock().unwrap().recv() {
                        Ok(j) => j,
                        Err(_) => return,
                    };
                    if job.delay_us > 0 {
                        std::thread::sleep(std::time::Duration::from_micros(job.delay_us));
                    } else {
                        std::thread::yield_now();
                    }
                    job.flag.ready.store(true, Ordering::SeqCst);
                    // wake first, then count down: when the solver thread sees "nothing
                    // outstanding" every wake has already been delivered
                    let w = job.flag.waker.lock().unwrap().take();
                    if let Some(w) = w {
                        w.wake();
                    }
                    job.outstanding.fetch_sub(1, Ordering::SeqCst);
                }
            });
        }
        std::sync::Mutex::new(tx)
    })
}

/// A suspension point inside a provider callback.
pub struct Pause {
    sched: Rc<Sched>,
    tag: Ev,
    active: bool,
    state: Option<(u64, Rc<Cell<bool>>)>,
    tflag: Option<Arc<TFlag>>,
}

impl Pause {
    pub fn new(sched: Rc<Sched>, tag: Ev, active: bool) -> Self {
        Pause { sched, tag, active, state: None, tflag: None }
    }
}

impl Future for Pause {
    type Output = ();
    fn poll(mut self: Pin<&mut Self>, cx: &mut Context<'_>) -> Poll<()> {
        if !self.active || !self.sched.enabled.get() {
            return Poll::Ready(());
        }
        if self.sched.threaded.get() {
            match &self.tflag {
                None => {
                    let flag = Arc::new(TFlag { ready: AtomicBool::new(false), waker: std::sync::Mutex::new(Some(cx.waker().clone())) });
                    self.tflag = Some(flag.clone());
                    let mut x = self.sched.trng.get();
                    x ^= x << 13;
                    x ^= x >> 7;
                    x ^= x << 17;
                    self.sched.trng.set(x);
                    let delay_us = match x % 4 {
                        0 => 0,
                        1 => x % 40,
                        _ => x % 400,
                    };
                    self.sched.outstanding.fetch_add(1, Ordering::SeqCst);
                    helper_pool().lock().unwrap().send(Job { delay_us, flag, outstanding: self.sched.outstanding.clone() }).expect("helper pool");
                    return Poll::Pending;
                }
                Some(f) => {
                    if f.ready.load(Ordering::SeqCst) {
                        return Poll::Ready(());
                    }
                    *f.waker.lock().unwrap() = Some(cx.waker().clone());
                    // the helper may have finished between the load and the store
                    if f.ready.load(Ordering::SeqCst) {
                        return Poll::Ready(());
                    }
                    return Poll::Pending;
                }
            }
        }
        match &self.state {
            None => {
                let r = Rc::new(Cell::new(false));
                let id = self.sched.next_id.get();
                self.sched.next_id.set(id + 1);
                self.sched.parked.borrow_mut().push(Parked {
                    id,
                    tag: self.tag.clone(),
                    ready: r.clone(),
                    waker: cx.waker().clone(),
                });
                self.state = Some((id, r));
                Poll::Pending
            }
            Some((id, r)) => {
                if r.get() {
                    Poll::Ready(())
                } else {
                    // polled again without having been released: keep the newest waker
                    for p in self.sched.parked.borrow_mut().iter_mut() {
                        if p.id == *id {
                            p.waker = cx.waker().clone();
                        }
                    }
                    Poll::Pending
                }
            }
        }
    }
}

impl Drop for Pause {
    fn drop(&mut self) {
        // A future that is dropped while parked (cancelled solve) must not leave a ghost entry.
        if let Some((id, r)) = &self.state {
            if !r.get() {
                self.sched.parked.borrow_mut().retain(|p| p.id != *id);
            }
        }
    }
}

/// How the executor picks the parked future to release.
#[derive(Clone, Debug, Serialize, Deserialize, PartialEq, Eq)]
pub enum Policy {
    Random(u64),
    Oldest,
    Newest,
    /// candidates requests first (oldest), then the rest
    CandsFirst,
    /// dependencies requests first (oldest), then the rest
    DepsFirst,
    /// explicit choice indices; after they run out: oldest
    Explicit(Vec<usize>),
    /// not a release policy: provider futures are completed by helper threads after random delays
    Threads(u64),
}

pub struct ManualRt {
    pub sched: Rc<Sched>,
    pub policy: RefCell<Policy>,
    pub rng: Cell<u64>,
    pub max_parked: Cell<usize>,
    /// (number of options, chosen index) for every release, over all block_on calls
    pub choices: RefCell<Vec<(usize, usize)>>,
    pub quiescent_points: Cell<u64>,
    pub spurious_wakes: Cell<u64>,
    step: Cell<usize>,
}

/// Payload of the panic raised when the main future is pending and nothing is parked.
pub struct Deadlock;

struct FlagWaker(AtomicBool);
impl Wake for FlagWaker {
    fn wake(self: Arc<Self>) {
        self.0.store(true, Ordering::SeqCst);
    }
    fn wake_by_ref(self: &Arc<Self>) {
        self.0.store(true, Ordering::SeqCst);
    }
}

impl ManualRt {
    pub fn new(sched: Rc<Sched>, policy: Policy) -> Self {
        sched.enabled.set(true);
        let seed = match &policy {
            Policy::Random(s) | Policy::Threads(s) => *s,
            _ => 1,
        };
        if let Policy::Threads(s) = &policy {
            sched.threaded.set(true);
            sched.trng.set(s.wrapping_mul(0x9E3779B97F4A7C15) | 1);
        }
        ManualRt {
            sched,
            policy: RefCell::new(policy),
            rng: Cell::new(seed.wrapping_mul(0x9E3779B97F4A7C15) | 1),
            max_parked: Cell::new(0),
            choices: Default::default(),
            quiescent_points: Cell::new(0),
            spurious_wakes: Cell::new(0),
            step: Cell::new(0),
        }
    }
    /// A runtime whose pauses never suspend: behaves like `NowOrNeverRuntime`.
    pub fn synchronous(sched: Rc<Sched>) -> Self {
        let rt = ManualRt::new(sched, Policy::Oldest);
        rt.sched.enabled.set(false);
        rt
    }
    fn next(&self) -> u64 {
        let mut x = self.rng.get();
        x ^= x << 13;
        x ^= x >> 7;
        x ^= x << 17;
        self.rng.set(x);
        x
    }
    fn choose(&self, parked: &[Parked]) -> usize {
        let n = parked.len();
        let step = self.step.get();
        self.step.set(step + 1);
        let by_kind = |want_cands: bool| {
            parked
                .iter()
                .position(|p| matches!(p.tag, Ev::CandCall(_)) == want_cands
                    && matches!(p.tag, Ev::CandCall(_) | Ev::DepsCall(_)))
                .unwrap_or(0)
        };
        match &*self.policy.borrow() {
            Policy::Random(_) => (self.next() % n as u64) as usize,
            Policy::Oldest => 0,
            Policy::Newest => n - 1,
            Policy::CandsFirst => by_kind(true),
            Policy::DepsFirst => by_kind(false),
            Policy::Explicit(v) => v.get(step).copied().unwrap_or(0).min(n - 1),
            Policy::Threads(_) => 0,
        }
    }
    pub fn release_sequence_hash(&self) -> u64 {
        let mut h = 0xcbf29ce484222325u64;
        for &(n, c) in self.choices.borrow().iter() {
            h = (h ^ (n as u64 * 131 + c as u64)).wrapping_mul(0x100000001b3);
        }
        h
    }
}

impl resolvo::runtime::AsyncRuntime for ManualRt {
    fn block_on<F: Future>(&self, f: F) -> F::Output {
        let mut f = std::pin::pin!(f);
        if self.sched.threaded.get() {
            // real cross-thread wake-ups: park the solver thread until some helper wakes it
            struct ThreadWaker {
                thread: std::thread::Thread,
                woken: AtomicBool,
            }
            impl Wake for ThreadWaker {
                fn wake(self: Arc<Self>) {
                    self.woken.store(true, Ordering::SeqCst);
                    self.thread.unpark();
                }
                fn wake_by_ref(self: &Arc<Self>) {
                    self.woken.store(true, Ordering::SeqCst);
                    self.thread.unpark();
                }
            }
            let tw = Arc::new(ThreadWaker { thread: std::thread::current(), woken: AtomicBool::new(false) });
            let waker = Waker::from(tw.clone());
            let mut cx = Context::from_waker(&waker);
            loop {
                tw.woken.store(false, Ordering::SeqCst);
                match f.as_mut().poll(&mut cx) {
                    Poll::Ready(v) => return v,
                    Poll::Pending => {
                        self.quiescent_points.set(self.quiescent_points.get() + 1);
                        let t0 = std::time::Instant::now();
                        loop {
                            if tw.woken.load(Ordering::SeqCst) {
                                self.sched.thread_wakes.set(self.sched.thread_wakes.get() + 1);
                                break;
                            }
                            if self.sched.outstanding.load(Ordering::SeqCst) == 0 {
                                // every helper has delivered its wake before counting down
                                if tw.woken.load(Ordering::SeqCst) {
                                    break;
                                }
                                std::panic::panic_any(Deadlock);
                            }
                            std::thread::park_timeout(std::time::Duration::from_millis(20));
                            if t0.elapsed().as_secs() > 60 {
                                panic!("harness: helper threads did not complete within 60 s");
                            }
                        }
                    }
                }
            }
        }
        let flag = Arc::new(FlagWaker(AtomicBool::new(false)));
        let waker = Waker::from(flag.clone());
        let mut cx = Context::from_waker(&waker);
        loop {
            flag.0.store(false, Ordering::SeqCst);
            match f.as_mut().poll(&mut cx) {
                Poll::Ready(v) => return v,
                Poll::Pending => {
                    if !self.sched.enabled.get() {
                        // a provider that never yields and a solver future that is pending: the
                        // solver waits on something that cannot complete (NowOrNeverRuntime would
                        // panic here)
                        std::panic::panic_any(Deadlock);
                    }
                    // If the root task woke itself during the poll it can still make progress on
                    // its own: poll again before interfering (a real executor would).
                    if flag.0.load(Ordering::SeqCst) {
                        self.spurious_wakes.set(self.spurious_wakes.get() + 1);
                        if self.spurious_wakes.get() < 1_000_000 {
                            continue;
                        }
                    }
                    let mut parked = self.sched.parked.borrow_mut();
                    self.quiescent_points.set(self.quiescent_points.get() + 1);
                    self.sched
                        .log
                        .borrow_mut()
                        .push(Ev::Quiescent(parked.iter().map(|p| p.tag.clone()).collect()));
                    self.max_parked.set(self.max_parked.get().max(parked.len()));
                    if parked.is_empty() {
                        drop(parked);
                        std::panic::panic_any(Deadlock);
                    }
                    let i = self.choose(&parked);
                    self.choices.borrow_mut().push((parked.len(), i));
                    let p = parked.remove(i);
                    drop(parked);
                    self.sched.log.borrow_mut().push(Ev::Release(Box::new(p.tag.clone())));
                    p.ready.set(true);
                    p.waker.wake();
                }
            }
        }
    }
}
