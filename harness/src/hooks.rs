//! Monitors over the hooked solver state (`Solver::verif_dump()`, feature `verif-hooks`), evaluated
//! at the quiescent point "solve has returned".
use std::collections::{BTreeMap, BTreeSet, HashMap};

use resolvo::verif::{VerifDump, VerifKind, VerifLit, VerifVar};

use crate::{reference::Ref, universe::*};

fn is_soft_exempt(kind: &VerifKind, lits: &[VerifLit], soft: &[u32]) -> bool {
    matches!(kind, VerifKind::Lock(_) | VerifKind::Excluded(_))
        && lits.iter().any(|(v, _)| matches!(v, VerifVar::Solvable(s) if soft.contains(s)))
}

/// At `Ok`: every clause evaluates to true under the final assignment, unassigned solvable
/// variables read as "not installed" (helper variables as "either"). Lock/Excluded clauses on
/// soft-named solvables are exempt (documented exemption).
pub fn clauses_satisfied(d: &VerifDump, soft: &[u32]) -> Vec<String> {
    let mut out = vec![];
    let mut val: HashMap<VerifVar, bool> = HashMap::new();
    for a in &d.trail {
        val.insert(a.var, a.value);
    }
    for (i, c) in d.clauses.iter().enumerate() {
        if is_soft_exempt(&c.kind, &c.literals, soft) {
            continue;
        }
        let ok = c.literals.iter().any(|(v, pos)| match (val.get(v), v) {
            (Some(b), _) => b == pos,
            (None, VerifVar::Helper(..)) => true,
            (None, _) => !*pos,
        });
        if !ok {
            out.push(format!("clause #{i} {:?} falsified at Ok", kind_name(&c.kind)));
        }
    }
    out
}

pub fn kind_name(k: &VerifKind) -> &'static str {
    match k {
        VerifKind::Root => "root",
        VerifKind::Requires(..) => "requires",
        VerifKind::Forbid(_) => "forbid",
        VerifKind::Constrains(_) => "constrains",
        VerifKind::Lock(_) => "lock",
        VerifKind::Learnt => "learnt",
        VerifKind::Excluded(_) => "excluded",
    }
}

/// Structural integrity of the two-watched-literal lists.
pub fn watch_integrity(d: &VerifDump) -> Vec<String> {
    let mut out = vec![];
    // chains by literal
    let mut in_chain: HashMap<(VerifLit, usize), u32> = HashMap::new();
    for &(lit, head) in &d.watch_heads {
        let mut cur = Some(head);
        let mut steps = 0usize;
        while let Some(c) = cur {
            steps += 1;
            if steps > d.clauses.len() + 1 {
                out.push(format!("watch list of {:?} is cyclic", lit));
                break;
            }
            let Some(cl) = d.clauses.get(c) else {
                out.push(format!("watch list of {:?} points at unknown clause {c}", lit));
                break;
            };
            let Some(w) = cl.watched else {
                out.push(format!("watch list of {:?} contains clause {c} without watches", lit));
                break;
            };
            let idx = if w[0] == lit {
                0
            } else if w[1] == lit {
                1
            } else {
                out.push(format!("clause {c} is in the watch list of {:?} but watches {:?}", lit, w));
                break;
            };
            *in_chain.entry((lit, c)).or_insert(0) += 1;
            cur = cl.next_watches[idx];
        }
    }
    for (i, c) in d.clauses.iter().enumerate() {
        let Some(w) = c.watched else { continue };
        if w[0] == w[1] {
            out.push(format!("clause {i} watches the same literal twice"));
        }
        for l in w {
            if !c.literals.contains(&l) {
                out.push(format!("clause {i} watches {:?} which is not one of its literals", l));
            }
            match in_chain.get(&(l, i)) {
                Some(1) => {}
                Some(n) => out.push(format!("clause {i} appears {n} times in the watch list of {:?}", l)),
                None => out.push(format!("clause {i} is missing from the watch list of {:?}", l)),
            }
        }
    }
    out
}

/// Trail sanity: every variable assigned once, levels never decrease, and every implied
/// assignment (not the first of its level) has a reason clause that contains the literal and
/// whose other literals were false before it.
pub fn trail_reasons(d: &VerifDump) -> Vec<String> {
    let mut out = vec![];
    let mut val: HashMap<VerifVar, (bool, usize)> = HashMap::new();
    let mut last_level = 0;
    for (pos, a) in d.trail.iter().enumerate() {
        if val.contains_key(&a.var) {
            out.push(format!("variable {:?} assigned twice", a.var));
            continue;
        }
        if a.level < last_level {
            out.push(format!("trail level decreases at position {pos} ({} after {last_level})", a.level));
        }
        let first_of_level = a.level > last_level;
        last_level = last_level.max(a.level);
        if !first_of_level {
            match d.clauses.get(a.reason) {
                None => out.push(format!("reason clause {} of {:?} does not exist", a.reason, a.var)),
                // assignments made on behalf of the caller (install the root / a soft solvable, reject
                // a soft solvable) carry the root clause as their reason and are not implications,
                // at whatever level an implementation chooses to record them
                Some(c) if matches!(c.kind, VerifKind::Root) => {}
                Some(c) => {
                    if !c.literals.contains(&(a.var, a.value)) {
                        out.push(format!(
                            "reason clause #{} ({}) of {:?}={} does not contain that literal",
                            a.reason,
                            kind_name(&c.kind),
                            a.var,
                            a.value
                        ));
                    } else {
                        for &(v, sat) in &c.literals {
                            if v == a.var {
                                continue;
                            }
                            match val.get(&v) {
                                Some(&(b, _)) if b != sat => {}
                                _ => out.push(format!(
                                    "reason clause #{} ({}) of {:?}={} was not unit: {:?} not false before",
                                    a.reason,
                                    kind_name(&c.kind),
                                    a.var,
                                    a.value,
                                    v
                                )),
                            }
                        }
                    }
                }
            }
        }
        val.insert(a.var, (a.value, pos));
    }
    out
}

/// Each non-learnt clause must be exactly what the rule it names implies from the provider's data.
pub fn encoding_sound(d: &VerifDump, rf: &Ref, p: &Prob) -> Vec<String> {
    let u = rf.u;
    let mut out = vec![];
    let deps_of = |v: &VerifVar| -> Option<(Vec<Req>, Vec<u32>)> {
        match v {
            VerifVar::Root => Some((p.reqs.clone(), p.cons.clone())),
            VerifVar::Solvable(s) => match &u.solvs[*s as usize].deps {
                Deps::Known { reqs, cons } => Some((reqs.clone(), cons.clone())),
                Deps::Unknown(_) => None,
            },
            _ => None,
        }
    };
    for (i, c) in d.clauses.iter().enumerate() {
        match &c.kind {
            VerifKind::Root => {
                if c.literals != vec![(VerifVar::Root, true)] {
                    out.push(format!("#{i} root clause has literals {:?}", c.literals));
                }
            }
            VerifKind::Learnt => {}
            VerifKind::Requires(parent, req) => {
                let r = from_req(*req);
                match deps_of(parent) {
                    Some((reqs, _)) if reqs.contains(&r) => {}
                    _ => out.push(format!("#{i} requires: {:?} is not a requirement of {:?}", r, parent)),
                }
                let mut expect: BTreeSet<VerifLit> = BTreeSet::new();
                expect.insert((*parent, false));
                for s in rf.sorted_req(r) {
                    expect.insert((VerifVar::Solvable(s), true));
                }
                let got: BTreeSet<VerifLit> = c.literals.iter().copied().collect();
                if got != expect {
                    out.push(format!("#{i} requires {:?} of {:?}: literals {:?} != expected {:?}", r, parent, got, expect));
                }
            }
            VerifKind::Constrains(vs) => {
                let ok = (|| {
                    if c.literals.len() != 2 {
                        return false;
                    }
                    let (a, sa) = c.literals[0];
                    let (b, sb) = c.literals[1];
                    if sa || sb {
                        return false;
                    }
                    let Some((_, cons)) = deps_of(&a) else { return false };
                    let VerifVar::Solvable(t) = b else { return false };
                    cons.contains(&vs.0) && rf.noncands_vs(vs.0).contains(&t)
                })();
                if !ok {
                    out.push(format!("#{i} constrains vs{}: literals {:?} not implied by provider data", vs.0, c.literals));
                }
            }
            VerifKind::Lock(locked) => {
                let ok = (|| {
                    let VerifVar::Solvable(l) = locked else { return false };
                    let n = u.solvs[*l as usize].name;
                    if u.pkgs[n as usize].locked != Some(*l) {
                        return false;
                    }
                    let mut other = None;
                    let mut root = false;
                    for &(v, s) in &c.literals {
                        if s {
                            return false;
                        }
                        match v {
                            VerifVar::Root => root = true,
                            VerifVar::Solvable(o) => other = Some(o),
                            _ => return false,
                        }
                    }
                    let Some(o) = other else { return false };
                    root && c.literals.len() == 2 && o != *l && rf.locked_out(o) && u.solvs[o as usize].name == n
                })();
                if !ok {
                    out.push(format!("#{i} lock {:?}: literals {:?} not implied by provider data", locked, c.literals));
                }
            }
            VerifKind::Excluded(reason) => {
                let ok = (|| {
                    if c.literals.len() != 1 {
                        return false;
                    }
                    let (VerifVar::Solvable(s), false) = c.literals[0] else { return false };
                    let n = u.solvs[s as usize].name;
                    u.pkgs[n as usize].excluded.iter().any(|&(e, r)| e == s && r == reason.0)
                        || matches!(u.solvs[s as usize].deps, Deps::Unknown(r) if r == reason.0)
                })();
                if !ok {
                    out.push(format!("#{i} excluded: literals {:?} not implied by provider data", c.literals));
                }
            }
            VerifKind::Forbid(name) => {
                // any layout: solvable literals are negative and belong to the package, helper
                // literals belong to the package
                let ok = c.literals.iter().all(|(v, pol)| match v {
                    VerifVar::Solvable(s) => !*pol && u.solvs[*s as usize].name == name.0,
                    VerifVar::Helper(n, _) => *n == name.0,
                    VerifVar::Root => false,
                }) && c.literals.iter().any(|(v, _)| matches!(v, VerifVar::Solvable(_)));
                if !ok {
                    out.push(format!("#{i} forbid {}: literals {:?} malformed", name.0, c.literals));
                }
            }
        }
    }
    // the helper encoding must be *sound*: for each package, assigning any single candidate true
    // must be consistent with the forbid clauses (so they never exclude a lone candidate)
    for (name, msg) in amo_structure(d) {
        out.push(format!("at-most-one encoding of package {name}: {msg}"));
    }
    out
}

/// At-most-one per package, judged semantically (independent of the encoding layout): over the
/// forbid clauses of a package, assuming any registered candidate true must, by unit propagation
/// alone, force every other registered candidate false without running into a conflict.
pub fn amo_structure(d: &VerifDump) -> Vec<(u32, String)> {
    let mut out = vec![];
    let mut by_pkg: BTreeMap<u32, Vec<&Vec<VerifLit>>> = BTreeMap::new();
    for c in &d.clauses {
        if let VerifKind::Forbid(name) = &c.kind {
            by_pkg.entry(name.0).or_default().push(&c.literals);
        }
    }
    for (name, clauses) in &by_pkg {
        let mut cands: BTreeSet<u32> = BTreeSet::new();
        for cl in clauses {
            for (v, _) in cl.iter() {
                if let VerifVar::Solvable(s) = v {
                    cands.insert(*s);
                }
            }
        }
        for &a in &cands {
            let mut val: HashMap<VerifVar, bool> = HashMap::new();
            val.insert(VerifVar::Solvable(a), true);
            let mut conflict = false;
            loop {
                let mut changed = false;
                for cl in clauses {
                    let mut sat = false;
                    let mut un: Option<VerifLit> = None;
                    let mut n_un = 0;
                    for &(v, pol) in cl.iter() {
                        match val.get(&v) {
                            Some(&b) if b == pol => {
                                sat = true;
                                break;
                            }
                            Some(_) => {}
                            None => {
                                if un != Some((v, pol)) {
                                    n_un += 1;
                                }
                                un = Some((v, pol));
                            }
                        }
                    }
                    if sat {
                        continue;
                    }
                    if n_un == 0 {
                        conflict = true;
                        break;
                    }
                    if n_un == 1 {
                        let (v, pol) = un.unwrap();
                        val.insert(v, pol);
                        changed = true;
                    }
                }
                if conflict || !changed {
                    break;
                }
            }
            if conflict {
                out.push((*name, format!("selecting solvable {a} alone contradicts the at-most-one clauses")));
                continue;
            }
            for &b in &cands {
                if b != a && val.get(&VerifVar::Solvable(b)) != Some(&false) {
                    out.push((*name, format!("solvables {a} and {b} are not made exclusive by the at-most-one clauses (unit propagation from {a} leaves {b} open)")));
                    break;
                }
            }
            if out.len() > 8 {
                return out;
            }
        }
    }
    out
}

pub struct RupStats {
    pub learnt_checked: u64,
    pub propagations: u64,
}

/// RUP check of the learnt clauses in derivation order and of the final verdict (unit
/// propagation from the whole database must produce the empty clause).
pub fn rup_check(d: &VerifDump, expect_unsat: bool) -> Result<RupStats, String> {
    // variable numbering
    let mut idx: HashMap<VerifVar, usize> = HashMap::new();
    let mut clauses: Vec<Vec<(usize, bool)>> = vec![];
    for c in &d.clauses {
        let mut cl = vec![];
        for &(v, s) in &c.literals {
            let n = idx.len();
            let i = *idx.entry(v).or_insert(n);
            // a literal may be listed twice (e.g. a union naming the same version set twice)
            if !cl.contains(&(i, s)) {
                cl.push((i, s));
            }
        }
        clauses.push(cl);
    }
    let nv = idx.len();
    let mut stats = RupStats { learnt_checked: 0, propagations: 0 };
    // unit propagation over clauses[..upto] with assumptions; returns true on conflict
    let up = |upto: usize, assume: &[(usize, bool)], stats: &mut RupStats| -> bool {
        let mut val: Vec<Option<bool>> = vec![None; nv];
        for &(v, b) in assume {
            match val[v] {
                Some(x) if x != b => return true,
                _ => val[v] = Some(b),
            }
        }
        loop {
            let mut changed = false;
            for cl in &clauses[..upto] {
                let mut unassigned = None;
                let mut n_un = 0;
                let mut sat = false;
                for &(v, s) in cl {
                    match val[v] {
                        Some(b) if b == s => {
                            sat = true;
                            break;
                        }
                        Some(_) => {}
                        None => {
                            n_un += 1;
                            unassigned = Some((v, s));
                        }
                    }
                }
                if sat {
                    continue;
                }
                if n_un == 0 {
                    return true;
                }
                if n_un == 1 {
                    let (v, s) = unassigned.unwrap();
                    val[v] = Some(s);
                    stats.propagations += 1;
                    changed = true;
                }
            }
            if !changed {
                return false;
            }
        }
    };
    for (i, c) in d.clauses.iter().enumerate() {
        if !matches!(c.kind, VerifKind::Learnt) {
            continue;
        }
        if clauses[i].is_empty() {
            return Err(format!("learnt clause #{i} is empty"));
        }
        let assume: Vec<(usize, bool)> = clauses[i].iter().map(|&(v, s)| (v, !s)).collect();
        stats.learnt_checked += 1;
        if !up(i, &assume, &mut stats) {
            return Err(format!(
                "learnt clause #{i} {:?} is not derivable by unit propagation from the clauses before it",
                c.literals
            ));
        }
        // antecedents must exist and precede the clause
        for &w in &c.why {
            if w >= i {
                return Err(format!("learnt clause #{i} lists antecedent #{w} that does not precede it"));
            }
        }
        if c.why.is_empty() {
            return Err(format!("learnt clause #{i} has no recorded antecedents"));
        }
    }
    if expect_unsat && !up(clauses.len(), &[], &mut stats) {
        return Err("unit propagation over the final clause database does not refute the root".into());
    }
    Ok(stats)
}
