//! rvmon <property> [--tier quick|thorough] [--seed N] [--threads N] [--scale F] [--shard i/n]
//!       [--part FILE] [--replay-dir DIR] [--known FILE] [--label L]
//! rvmon <property> --replay FILE
//! rvmon <property> --case-seed N [--index I]
//! rvmon <property> --tape-dir DIR [--shard i/n] [--part FILE]   (all inputs of a corpus directory)
//! rvmon <property> --tape FILE          (a libFuzzer input: choice tape of the property's generator)
use std::{collections::BTreeMap, path::PathBuf};

use rvmon::{
    campaign::{self, Monitor, RunCfg},
    monitors::*,
    report::{Report, Tier},
};
use serde_json::{Value, json};

struct Args {
    prop: String,
    tier: Tier,
    seed: u64,
    threads: usize,
    scale: f64,
    shard: (u64, u64),
    part: Option<PathBuf>,
    replay_dir: PathBuf,
    replay: Option<PathBuf>,
    case_seed: Option<u64>,
    tape: Option<PathBuf>,
    tape_dir: Option<PathBuf>,
    index: u64,
    label: String,
    watchdog: u64,
    floor_scale: f64,
    extra: BTreeMap<String, String>,
}

fn parse() -> Args {
    let mut a = Args {
        prop: String::new(),
        tier: Tier::Quick,
        seed: std::env::var("VERIF_SEED").ok().and_then(|s| s.parse().ok()).unwrap_or(1),
        threads: std::thread::available_parallelism().map(|n| n.get()).unwrap_or(4),
        scale: 1.0,
        shard: (0, 1),
        part: None,
        replay_dir: PathBuf::from("/verif/replay"),
        replay: None,
        case_seed: None,
        tape: None,
        tape_dir: None,
        index: 0,
        label: "native".into(),
        watchdog: 300,
        floor_scale: 1.0,
        extra: BTreeMap::new(),
    };
    let mut it = std::env::args().skip(1);
    while let Some(x) = it.next() {
        let mut val = || it.next().unwrap_or_else(|| panic!("missing value for {x}"));
        match x.as_str() {
            "--tier" => a.tier = if val() == "thorough" { Tier::Thorough } else { Tier::Quick },
            "--seed" => a.seed = val().parse().expect("seed"),
            "--threads" => a.threads = val().parse().expect("threads"),
            "--scale" => a.scale = val().parse().expect("scale"),
            "--shard" => {
                let v = val();
                let (i, n) = v.split_once('/').expect("i/n");
                a.shard = (i.parse().unwrap(), n.parse().unwrap());
            }
            "--part" => a.part = Some(val().into()),
            "--replay-dir" => a.replay_dir = val().into(),
            "--replay" => a.replay = Some(val().into()),
            "--case-seed" => a.case_seed = Some(val().parse().expect("case seed")),
            "--tape" => a.tape = Some(val().into()),
            "--tape-dir" => a.tape_dir = Some(val().into()),
            "--index" => a.index = val().parse().expect("index"),
            "--label" => a.label = val(),
            "--watchdog" => a.watchdog = val().parse().expect("watchdog"),
            "--floor-scale" => a.floor_scale = val().parse().expect("floor scale"),
            "--small" => rvmon::report::SMALL.store(true, std::sync::atomic::Ordering::SeqCst),
            s if s.starts_with("--x-") => {
                let v = val();
                a.extra.insert(s[4..].to_string(), v);
            }
            s if a.prop.is_empty() && !s.starts_with('-') => a.prop = s.to_string(),
            s => panic!("unknown argument {s}"),
        }
    }
    a
}

fn finish<M: Monitor>(m: &M, a: &Args, rep: Report, wall: f64, floor_applies: bool) -> i32 {
    let id = m.id();
    std::fs::create_dir_all(a.replay_dir.join(id)).ok();
    let mut vio_out = vec![];
    let mut seen: BTreeMap<String, usize> = BTreeMap::new();
    for v in &rep.violations {
        let k = seen.entry(v.kind.clone()).or_insert(0);
        *k += 1;
        let slug: String =
            v.kind.chars().map(|c| if c.is_ascii_alphanumeric() { c } else { '_' }).take(60).collect();
        let path = a.replay_dir.join(id).join(format!("{}-{}-{}-{}.json", a.label, slug, a.seed, k));
        let body = json!({
            "property": id, "kind": v.kind, "detail": v.detail, "case_seed": v.case_seed,
            "tier": a.tier.name(), "case": v.case,
        });
        std::fs::write(&path, serde_json::to_string_pretty(&body).unwrap()).ok();
        vio_out.push(json!({"kind": v.kind, "detail": v.detail, "replay": path, "case_seed": v.case_seed}));
    }
    let floor = if floor_applies { (m.floor(a.tier) as f64 * a.scale * a.floor_scale).floor() as u64 } else { 0 };
    let mut inconclusive: Vec<String> = vec![];
    for (k, n) in &rep.inconclusive {
        if k.starts_with("harness panic") || k.starts_with("a worker thread died") {
            inconclusive.push(format!("{k} (x{n})"));
        }
    }
    if (rep.nontrivial.len() as u64) < floor {
        inconclusive.push(format!(
            "only {} distinct non-trivial cases observed, floor is {}",
            rep.nontrivial.len(),
            floor
        ));
    }
    let mut j = rep.to_json();
    j["maxima"]["max-provider-steps-any-solve"] = json!(rvmon::run::MAX_STEPS_SEEN.load(std::sync::atomic::Ordering::Relaxed));
    j["maxima"]["provider-step-budget"] = json!(rvmon::run::DEFAULT_BUDGET);
    j["maxima"]["max-solver-loop-iterations-any-solve"] = json!(rvmon::run::MAX_LOOP_ITERATIONS_SEEN.load(std::sync::atomic::Ordering::Relaxed));
    j["maxima"]["solver-loop-iteration-budget"] = json!(rvmon::run::LOOP_BUDGET);
    j["property_id"] = json!(id);
    j["label"] = json!(a.label);
    j["tier"] = json!(a.tier.name());
    j["seed"] = json!(a.seed);
    j["wall_s"] = json!(wall);
    j["rule"] = json!(m.rule());
    j["violations"] = json!(vio_out);
    j["floor"] = json!(floor);
    j["inconclusive_reasons"] = json!(inconclusive);
    if let Some(p) = &a.part {
        std::fs::write(p, serde_json::to_string_pretty(&j).unwrap()).expect("write part");
    } else {
        println!("{}", serde_json::to_string_pretty(&j).unwrap());
    }
    for v in &vio_out {
        println!("FOUND property={id} kind={:?} replay={}", v["kind"].as_str().unwrap(), v["replay"].as_str().unwrap());
    }
    if !rep.violations.is_empty() {
        1
    } else if !inconclusive.is_empty() {
        for i in &inconclusive {
            println!("INCONCLUSIVE property={id} {i}");
        }
        2
    } else {
        0
    }
}

fn drive<M: Monitor>(m: &M, a: &Args) -> i32 {
    if let Some(path) = &a.replay {
        let txt = std::fs::read_to_string(path).expect("read replay file");
        let v: Value = serde_json::from_str(&txt).expect("replay json");
        let case = v.get("case").cloned().unwrap_or(v.clone());
        if case.is_null() && v.get("case_seed").and_then(|x| x.as_u64()) == Some(0) {
            // a violation of the fixed (not seed-driven) part of the check: run that part again
            let mut rep = Report::default();
            let mut ctx = rvmon::report::Ctx { rep: &mut rep, case_seed: 0, tier: a.tier, pending: vec![], verbose: true };
            m.fixed(a.tier, 0, 1, &mut ctx);
            let n = ctx.pending.len();
            println!("replay (fixed part): {n} violation(s)");
            return if n == 0 { 0 } else { 1 };
        }
        if case.is_null() {
            if let Some(cs) = v.get("case_seed").and_then(|x| x.as_u64()) {
                let rep = campaign::run_seed(m, a.tier, cs, a.index);
                println!("replay: {} violations", rep.violations.len());
                return if rep.violations.is_empty() { 0 } else { 1 };
            }
        }
        return match campaign::replay(m, a.tier, case) {
            Ok(rep) => {
                println!("replay: {} violation(s) {:?}", rep.violations.len(), rep.violation_counts);
                if rep.violations.is_empty() { 0 } else { 1 }
            }
            Err(e) => {
                println!("INCONCLUSIVE replay could not be loaded: {e}");
                2
            }
        };
    }
    if let Some(dir) = &a.tape_dir {
        // every fuzzer input of a directory (this shard's share), judged like campaign cases
        let mut files: Vec<PathBuf> = std::fs::read_dir(dir).expect("tape dir").filter_map(|e| e.ok().map(|e| e.path())).filter(|p| p.is_file()).collect();
        files.sort();
        let t0 = std::time::Instant::now();
        let mut rep = Report::default();
        for (i, f) in files.iter().enumerate() {
            if i as u64 % a.shard.1 != a.shard.0 {
                continue;
            }
            let data = std::fs::read(f).unwrap_or_default();
            let mut rng = rvmon::gener::Rng::from_tape(&data);
            let index = rng.below(65536);
            let case = m.generate(&mut rng, a.tier, index);
            match campaign::replay(m, a.tier, serde_json::to_value(&case).unwrap_or(Value::Null)) {
                Ok(r) => rep.merge(r),
                Err(e) => rep.inconclusive(&format!("harness panic: tape case could not be rebuilt: {e}")),
            }
            rep.cases += 1;
            rep.count("corpus-inputs-replayed");
        }
        return finish(m, a, rep, t0.elapsed().as_secs_f64(), false);
    }
    if let Some(path) = &a.tape {
        // a fuzzer input: the choice tape of this property's generator
        let data = std::fs::read(path).expect("read tape");
        let mut rng = rvmon::gener::Rng::from_tape(&data);
        let index = rng.below(65536);
        let case = m.generate(&mut rng, a.tier, index);
        return match campaign::replay(m, a.tier, serde_json::to_value(&case).unwrap_or(Value::Null)) {
            Ok(rep) => {
                println!("tape: {} violation(s) {:?}", rep.violations.len(), rep.violation_counts);
                if rep.violations.is_empty() { 0 } else { 1 }
            }
            Err(e) => {
                println!("INCONCLUSIVE tape case could not be rebuilt: {e}");
                2
            }
        };
    }
    if let Some(cs) = a.case_seed {
        let rep = campaign::run_seed(m, a.tier, cs, a.index);
        println!("{}", serde_json::to_string_pretty(&rep.to_json()).unwrap());
        println!("violations: {:?}", rep.violation_counts);
        return if rep.violations.is_empty() { 0 } else { 1 };
    }
    let cfg = RunCfg {
        tier: a.tier,
        seed: a.seed,
        threads: a.threads.max(1),
        scale: a.scale,
        watchdog_s: a.watchdog,
        shard: a.shard,
        inflight_dir: a.part.as_ref().map(|p| std::path::PathBuf::from(format!("{}.inflight", p.display()))),
    };
    let r = campaign::run(m, &cfg);
    finish(m, a, r.report, r.wall_s, true)
}

fn main() {
    rvmon::run::install_panic_hook();
    let a = parse();
    let code = match a.prop.as_str() {
        "C01" => drive(&c01::C01, &a),
        "C02" => drive(&c02::C02, &a),
        "C03" => drive(&c03::C03, &a),
        "C04" => drive(&c04::C04, &a),
        "C05" => drive(&c05::C05, &a),
        "C06" => drive(&c06::C06::from_extra(&a.extra), &a),
        "C07" => drive(&c07::C07, &a),
        "C08" => drive(&c08::C08, &a),
        "C09" => drive(&c09::C09, &a),
        "C10" => drive(&c10::C10, &a),
        "C11" => drive(&c11::C11, &a),
        "C12" => drive(&c12::C12, &a),
        "C13" => drive(&c13::C13, &a),
        "C14" => drive(&c14::C14, &a),
        "C15" => drive(&c15::C15, &a),
        "C16" => drive(&c16::C16, &a),
        "C17" => drive(&c17::C17::from_extra(&a.extra), &a),
        "C18" => drive(&c18::C18, &a),
        "C19" => drive(&c19::C19, &a),
        "C20" => drive(&c20::C20, &a),
        other => {
            eprintln!("unknown property {other}");
            3
        }
    };
    std::process::exit(code);
}
