//! Seeded generators of universes and problems.
use crate::universe::*;

/// Source of choices for the generators: a seeded PRNG (splitmix64), or - for coverage-guided
/// fuzzing - a finite byte tape: every choice consumes one, two or eight bytes of the tape, so that
/// a small mutation of the tape is a small mutation of the generated case; an exhausted tape
/// answers 0 (the smallest choice) forever.
#[derive(Clone)]
pub struct Rng {
    state: u64,
    tape: Option<(std::rc::Rc<[u8]>, usize)>,
}
impl Rng {
    pub fn new(seed: u64) -> Self {
        Rng { state: seed, tape: None }
    }
    pub fn from_tape(data: &[u8]) -> Self {
        Rng { state: 0, tape: Some((data.into(), 0)) }
    }
    /// bytes of the tape consumed so far (tape mode)
    pub fn consumed(&self) -> usize {
        self.tape.as_ref().map(|t| t.1).unwrap_or(0)
    }
    fn take(&mut self, n: usize) -> u64 {
        let (data, pos) = self.tape.as_mut().expect("tape mode");
        let mut v = 0u64;
        for _ in 0..n {
            v = (v << 8) | data.get(*pos).copied().unwrap_or(0) as u64;
            *pos += 1;
        }
        v
    }
    pub fn next(&mut self) -> u64 {
        if self.tape.is_some() {
            return self.take(8);
        }
        // splitmix64
        self.state = self.state.wrapping_add(0x9E3779B97F4A7C15);
        let mut z = self.state;
        z = (z ^ (z >> 30)).wrapping_mul(0xBF58476D1CE4E5B9);
        z = (z ^ (z >> 27)).wrapping_mul(0x94D049BB133111EB);
        z ^ (z >> 31)
    }
    pub fn below(&mut self, n: u64) -> u64 {
        if n == 0 {
            return 0;
        }
        if self.tape.is_some() {
            return match n {
                1 => 0,
                2..=256 => self.take(1) % n,
                257..=65536 => self.take(2) % n,
                _ => self.take(8) % n,
            };
        }
        self.next() % n
    }
    pub fn range(&mut self, lo: u64, hi: u64) -> u64 {
        lo + self.below(hi - lo + 1)
    }
    pub fn chance(&mut self, num: u64, den: u64) -> bool {
        self.below(den) < num
    }
    pub fn pick<'a, T>(&mut self, v: &'a [T]) -> &'a T {
        &v[self.below(v.len() as u64) as usize]
    }
    pub fn shuffle<T>(&mut self, v: &mut [T]) {
        for i in (1..v.len()).rev() {
            let j = self.below(i as u64 + 1) as usize;
            v.swap(i, j);
        }
    }
    pub fn perm(&mut self, n: usize) -> Vec<u32> {
        let mut p: Vec<u32> = (0..n as u32).collect();
        self.shuffle(&mut p);
        p
    }
    /// an injective map of 0..n into 0..m (m >= n), randomly spread
    pub fn sparse_perm(&mut self, n: usize, m: usize) -> Vec<u32> {
        let mut p: Vec<u32> = (0..m as u32).collect();
        self.shuffle(&mut p);
        p.truncate(n);
        p
    }
    pub fn fork(&mut self) -> Rng {
        Rng::new(self.next())
    }
}

/// The families built around one known-delicate mechanism (`soft-backjump`, `soft-learn-reject`)
/// can be switched off with RVMON_PLAIN_FAMILIES=1: used only to measure what coverage guidance
/// finds on its own (DESIGN section 6).
pub fn shaped_enabled() -> bool {
    static ON: std::sync::OnceLock<bool> = std::sync::OnceLock::new();
    *ON.get_or_init(|| std::env::var_os("RVMON_PLAIN_FAMILIES").is_none())
}

#[derive(Clone, Debug)]
pub struct GenCfg {
    pub npkg: u64,
    pub maxver: u64,
    pub maxreq: u64,
    /// percent per solvable
    pub p_con: u64,
    /// percent per requirement
    pub p_union: u64,
    pub p_unknown: u64,
    pub p_excl: u64,
    pub p_lock: u64,
    pub p_fav: u64,
    pub p_missing: u64,
    /// 0 none, 1 random per package, 2 all
    pub hints: u64,
    pub nsoft: u64,
    pub p_rootcon: u64,
    /// percent per solvable: requirement / constrains on its own package
    pub p_self: u64,
    /// percent per solvable: a requirement is listed twice
    pub p_dup: u64,
    /// percent per version set: arbitrary subset instead of a range
    pub p_extset: u64,
    /// percent: out-of-range (empty) version set
    pub p_empty: u64,
    /// percent per package: candidates get random ranks
    pub p_rank: u64,
    /// percent: soft solvables are picked among "interesting" ones (excluded, locked out, unknown...)
    pub p_softbias: u64,
    pub maxroot: u64,
    /// percent per package: favored / locked / hint entries that name a solvable which is NOT a
    /// candidate of that package (legal for the types, hostile for the solver)
    pub p_foreign: u64,
    /// layered: requirements only point to later packages (acyclic, deeper searches)
    pub layered: bool,
    /// percent per package: a LARGE share (30..90 %) of the candidates is excluded (dozens to
    /// hundreds of negative assertions in one solve)
    pub p_exclmany: u64,
}

impl GenCfg {
    pub fn tiny() -> Self {
        GenCfg {
            npkg: 6, maxver: 4, maxreq: 3, p_con: 30, p_union: 15, p_unknown: 5, p_excl: 10,
            p_lock: 8, p_fav: 15, p_missing: 20, hints: 0, nsoft: 0, p_rootcon: 30, p_self: 0,
            p_dup: 0, p_extset: 10, p_empty: 8, p_rank: 20, p_softbias: 0, maxroot: 3,
            p_foreign: 0, layered: false, p_exclmany: 0,
        }
    }
    pub fn medium() -> Self {
        GenCfg {
            npkg: 10, maxver: 5, maxreq: 4, p_con: 40, p_union: 15, p_unknown: 3, p_excl: 6,
            p_lock: 5, p_fav: 15, p_missing: 10, p_rootcon: 30, ..Self::tiny()
        }
    }
    /// constrains-heavy: more conflicts, learning and backjumps
    pub fn conf() -> Self {
        GenCfg {
            npkg: 8, maxver: 4, maxreq: 3, p_con: 80, p_union: 10, p_unknown: 1, p_excl: 2,
            p_lock: 2, p_fav: 15, p_missing: 0, p_rootcon: 20, p_empty: 3, ..Self::tiny()
        }
    }
    /// deeper layered universes with many constrains: multi-level backjumps
    pub fn deep() -> Self {
        GenCfg {
            npkg: 12, maxver: 4, maxreq: 3, p_con: 90, p_union: 8, p_unknown: 0, p_excl: 2,
            p_lock: 0, p_fav: 10, p_missing: 0, p_rootcon: 10, p_empty: 2, layered: true,
            maxroot: 3, ..Self::tiny()
        }
    }
    /// conflict-poor: the greedy closure is often the answer (C07, C09)
    pub fn lazy() -> Self {
        GenCfg {
            npkg: 8, maxver: 4, maxreq: 2, p_con: 8, p_union: 20, p_unknown: 1, p_excl: 3,
            p_lock: 3, p_fav: 30, p_missing: 3, p_rootcon: 8, p_empty: 1, p_rank: 40,
            ..Self::tiny()
        }
    }
    /// everything the test-suite never combines
    pub fn hostile() -> Self {
        GenCfg {
            npkg: 6, maxver: 4, maxreq: 3, p_con: 35, p_union: 20, p_unknown: 8, p_excl: 15,
            p_lock: 10, p_fav: 15, p_missing: 20, hints: 1, nsoft: 4, p_rootcon: 30, p_self: 12,
            p_dup: 10, p_extset: 15, p_empty: 8, p_rank: 25, p_softbias: 50, maxroot: 3,
            p_foreign: 6, layered: false, p_exclmany: 0,
        }
    }
    pub fn with_hints(mut self, h: u64) -> Self {
        self.hints = h;
        self
    }
    pub fn with_soft(mut self, n: u64) -> Self {
        self.nsoft = n;
        if self.p_softbias == 0 {
            self.p_softbias = 30;
        }
        self
    }
}

pub fn generate(r: &mut Rng, c: &GenCfg) -> (Universe, Prob) {
    let mut u = Universe::default();
    let npkg = 1 + r.below(c.npkg) as usize;
    let names: Vec<String> = (0..npkg).map(|i| format!("p{i}")).collect();
    let mut nver = vec![];
    for n in &names {
        u.pkg(n);
        let k = 1 + r.below(c.maxver) as u32;
        nver.push(k);
        for v in 1..=k {
            u.solv(n, v);
        }
    }
    let mut all_names = names.clone();
    if r.chance(c.p_missing, 100) {
        let m = u.pkg("missing");
        u.pkgs[m as usize].candidates = None;
        all_names.push("missing".into());
        nver.push(2);
    }
    let nsolv = u.solvs.len();
    // version set on package index `pi`
    let vs_on = |u: &mut Universe, r: &mut Rng, pi: usize| -> u32 {
        let k = nver[pi];
        if r.chance(c.p_empty, 100) {
            return u.vs(&all_names[pi], k + 1, k + 2);
        }
        if r.chance(c.p_extset, 100) && pi < npkg {
            let cands = u.pkgs[pi].candidates.clone().unwrap_or_default();
            let m: Vec<u32> = cands.iter().copied().filter(|_| r.chance(1, 2)).collect();
            let label = format!("set{}", u.vsets.len());
            return u.vs_ext(&all_names[pi], &label, m);
        }
        let lo = 1 + r.below(k as u64) as u32;
        let hi = if r.chance(50, 100) { k + 1 } else { lo + 1 + r.below((k - lo + 1) as u64) as u32 };
        u.vs(&all_names[pi], lo, hi)
    };
    let rand_pkg = |r: &mut Rng, from: usize| -> usize {
        if c.layered && from + 1 < all_names.len() {
            from + 1 + r.below((all_names.len() - from - 1) as u64) as usize
        } else {
            r.below(all_names.len() as u64) as usize
        }
    };
    for s in 0..nsolv {
        let own = u.solvs[s].name as usize;
        if r.chance(c.p_unknown, 100) {
            let st = u.string("unknown deps");
            u.solvs[s].deps = Deps::Unknown(st);
            continue;
        }
        let nreq = r.below(c.maxreq + 1);
        for _ in 0..nreq {
            let req = if r.chance(c.p_union, 100) {
                let k = 2 + r.below(2);
                let vs: Vec<u32> = (0..k)
                    .map(|_| {
                        let pi = rand_pkg(r, own);
                        vs_on(&mut u, r, pi)
                    })
                    .collect();
                Req::Union(u.union(vs))
            } else {
                let pi = if r.chance(c.p_self, 100) { own } else { rand_pkg(r, own) };
                Req::Single(vs_on(&mut u, r, pi))
            };
            u.add_req(s as u32, req);
            if r.chance(c.p_dup, 100) {
                u.add_req(s as u32, req);
            }
        }
        if r.chance(c.p_con, 100) {
            let ncon = 1 + r.below(2);
            for _ in 0..ncon {
                let pi = if r.chance(c.p_self, 100) {
                    own
                } else if c.layered {
                    r.below(all_names.len() as u64) as usize
                } else {
                    rand_pkg(r, own)
                };
                let v = vs_on(&mut u, r, pi);
                u.add_con(s as u32, v);
            }
        }
    }
    for pi in 0..npkg {
        let cands = u.pkgs[pi].candidates.clone().unwrap();
        if r.chance(c.p_excl, 100) {
            let n = 1 + r.below(2);
            for _ in 0..n {
                let s = *r.pick(&cands);
                let st = u.string(if r.chance(1, 2) { "excluded" } else { "not for this platform" });
                if !u.pkgs[pi].excluded.iter().any(|&(e, _)| e == s) {
                    u.pkgs[pi].excluded.push((s, st));
                }
            }
        }
        if r.chance(c.p_exclmany, 100) {
            let share = 30 + r.below(61);
            let st = u.string("yanked");
            for &s in &cands {
                if r.chance(share, 100) && !u.pkgs[pi].excluded.iter().any(|&(e, _)| e == s) {
                    u.pkgs[pi].excluded.push((s, st));
                }
            }
        }
        if r.chance(c.p_lock, 100) {
            u.pkgs[pi].locked = Some(*r.pick(&cands));
        }
        if r.chance(c.p_fav, 100) {
            u.pkgs[pi].favored = Some(*r.pick(&cands));
        }
        match c.hints {
            1 => {
                u.pkgs[pi].hint = match r.below(3) {
                    0 => Hint::None,
                    1 => Hint::All,
                    _ => Hint::Some(cands.iter().copied().filter(|_| r.chance(1, 2)).collect()),
                };
            }
            2 => u.pkgs[pi].hint = Hint::All,
            _ => {}
        }
        if r.chance(c.p_rank, 100) {
            for &s in &cands {
                u.solvs[s as usize].rank = r.below(1000) as u32;
            }
        }
        if r.chance(c.p_foreign, 100) {
            let foreign = r.below(nsolv as u64) as u32;
            match r.below(3) {
                0 => u.pkgs[pi].favored = Some(foreign),
                1 => u.pkgs[pi].locked = Some(foreign),
                _ => {
                    let mut h: Vec<u32> = cands.iter().copied().filter(|_| r.chance(1, 2)).collect();
                    h.push(foreign);
                    u.pkgs[pi].hint = Hint::Some(h);
                }
            }
        }
    }
    let mut p = Prob::default();
    let nroot = 1 + r.below(c.maxroot);
    for _ in 0..nroot {
        // in layered mode roots point at the first few packages
        let root_pkg = |r: &mut Rng| {
            if c.layered { r.below(all_names.len().min(3) as u64) as usize } else { r.below(all_names.len() as u64) as usize }
        };
        if r.chance(c.p_union, 100) {
            let vs: Vec<u32> = (0..2)
                .map(|_| {
                    let pi = root_pkg(r);
                    vs_on(&mut u, r, pi)
                })
                .collect();
            let un = u.union(vs);
            p.reqs.push(Req::Union(un));
        } else {
            let pi = root_pkg(r);
            let v = vs_on(&mut u, r, pi);
            p.reqs.push(Req::Single(v));
        }
    }
    if r.chance(c.p_rootcon, 100) {
        let pi = r.below(all_names.len() as u64) as usize;
        let v = vs_on(&mut u, r, pi);
        p.cons.push(v);
    }
    // degenerate problems: a requirement listed twice, a constraint on the version set of a
    // requirement, no requirements at all
    if c.p_dup > 0 {
        if r.chance(c.p_dup, 100) {
            let q = *r.pick(&p.reqs);
            p.reqs.push(q);
        }
        if r.chance(c.p_dup / 2, 100) {
            if let Req::Single(v) = p.reqs[0] {
                p.cons.push(v);
            }
        }
        if r.chance(2, 100) {
            p.reqs.clear();
        }
    }
    u.finalize();
    // a provider whose filter_candidates answers in its own order (index scan, reversed, ...)
    if r.chance(1, 5) {
        u.filter_order = 1 + r.below(3) as u8;
    }
    // a provider whose version_sets_in_union iterator carries no size information
    if !u.unions.is_empty() && r.chance(1, 3) {
        u.union_iter = 1;
    }
    let ns = r.below(c.nsoft + 1);
    if ns > 0 {
        // "interesting" soft solvables: excluded, locked out, unknown deps
        let mut interesting: Vec<u32> = vec![];
        for (s, sv) in u.solvs.iter().enumerate() {
            let pk = &u.pkgs[sv.name as usize];
            if pk.excluded.iter().any(|&(e, _)| e == s as u32)
                || (pk.locked.is_some() && pk.locked != Some(s as u32))
                || matches!(sv.deps, Deps::Unknown(_))
            {
                interesting.push(s as u32);
            }
        }
        for _ in 0..ns {
            if !interesting.is_empty() && r.chance(c.p_softbias, 100) {
                p.soft.push(*r.pick(&interesting));
            } else if !p.soft.is_empty() && r.chance(15, 100) {
                // another version of an already listed package, or a duplicate
                let s = *r.pick(&p.soft);
                let n = u.solvs[s as usize].name;
                let same: Vec<u32> = (0..nsolv as u32).filter(|&x| u.solvs[x as usize].name == n).collect();
                p.soft.push(*r.pick(&same));
            } else {
                p.soft.push(r.below(nsolv as u64) as u32);
            }
        }
    }
    // a directly requested solvable that its package does not LIST (an installed version that has
    // left the index): legal for the types, never a candidate of any requirement
    if c.p_foreign > 0 && !p.soft.is_empty() && r.chance(c.p_foreign, 100) {
        let x = *r.pick(&p.soft);
        let n = u.solvs[x as usize].name as usize;
        if let Some(cl) = u.pkgs[n].candidates.as_mut() {
            cl.retain(|&s| s != x);
        }
    }
    (u, p)
}

/// Random activity parameters (add, decay).
pub fn activity_params(r: &mut Rng) -> (f32, f32) {
    match r.below(5) {
        0 => (1.0, 0.95),
        1 => (0.0, 1.0),
        2 => (10.0, 0.5),
        3 => (1.0, 1.0),
        _ => (r.below(100) as f32 / 10.0, 0.5 + r.below(50) as f32 / 100.0),
    }
}

/// Metamorphic variant: permute candidate lists.
pub fn permute_candidates(u: &Universe, r: &mut Rng) -> Universe {
    let mut v = u.clone();
    for p in &mut v.pkgs {
        if let Some(c) = p.candidates.as_mut() {
            r.shuffle(c);
        }
    }
    v
}

/// Metamorphic variant: new ranks (changes preference order, not solvability).
pub fn rerank(u: &Universe, r: &mut Rng) -> Universe {
    let mut v = u.clone();
    for s in &mut v.solvs {
        s.rank = r.below(1000) as u32;
    }
    for p in &mut v.pkgs {
        if r.chance(1, 2) {
            p.favored = None;
        } else if let Some(c) = &p.candidates {
            if !c.is_empty() {
                p.favored = Some(*r.pick(c));
            }
        }
    }
    v
}

/// Metamorphic variant: a different hint pattern.
pub fn rehint(u: &Universe, r: &mut Rng) -> Universe {
    let mut v = u.clone();
    for p in &mut v.pkgs {
        let cands = p.candidates.clone().unwrap_or_default();
        p.hint = match r.below(3) {
            0 => Hint::None,
            1 => Hint::All,
            _ => Hint::Some(cands.iter().copied().filter(|_| r.chance(1, 2)).collect()),
        };
    }
    v
}

/// Metamorphic variant: renumber all ids (dense permutation or sparse spread).
pub fn renumber(u: &Universe, p: &Prob, r: &mut Rng, sparse: bool) -> (Universe, Prob) {
    let f = |r: &mut Rng, n: usize| {
        if sparse {
            let m = n + 1 + r.below(3 * n as u64 + 140) as usize;
            r.sparse_perm(n, m)
        } else {
            r.perm(n)
        }
    };
    let pk = f(r, u.pkgs.len());
    let sv = f(r, u.solvs.len());
    let vs = f(r, u.vsets.len());
    let un = f(r, u.unions.len());
    let st = f(r, u.strings.len());
    u.renumber(p, &pk, &sv, &vs, &un, &st)
}

/// Shape around defect D13: a soft solvable whose candidates conflict with facts that are forced
/// at level 1, so that the soft run learns a clause that would back-jump below its own starting
/// level, next to root requirements (one of them a union) whose decision order can flip when
/// activities change. Randomised in sizes, in which constrains exist and in hints.
pub fn soft_backjump(r: &mut Rng) -> (Universe, Prob) {
    let mut u = Universe::default();
    let nr = 1 + r.below(2) as u32;
    for v in 1..=nr {
        u.solv("r", v);
    }
    let na = 2 + r.below(2) as u32;
    for v in 1..=na {
        u.solv("a", v);
    }
    let ne = 1 + r.below(2) as u32;
    for v in 1..=ne {
        u.solv("e", v);
    }
    let nlow = 1 + r.below(2) as u32;
    let nhigh = 1 + r.below(3) as u32;
    let mut low = vec![];
    let mut high = vec![];
    for v in 1..=nlow {
        low.push(u.solv("d", v));
    }
    for v in 0..nhigh {
        high.push(u.solv("d", 5 + v));
    }
    let nx = 1 + r.below(2) as u32;
    let mut xs = vec![];
    for v in 1..=nx {
        xs.push(u.solv("x", v));
    }
    // low versions of d push `a` away from its best version
    let a_low = u.vs("a", 0, na);
    for &s in &low {
        if r.chance(4, 5) {
            u.add_con(s, a_low);
        }
    }
    // high versions of d are incompatible with something forced early
    let r_none = u.vs("r", 0, 1);
    let e_none = u.vs("e", 0, 1);
    let a_none = u.vs("a", 0, 1);
    for &s in &high {
        match r.below(6) {
            0 => u.add_con(s, e_none),
            1 => u.add_con(s, a_none),
            2 => {}
            _ => u.add_con(s, r_none),
        }
    }
    let d_high = u.vs("d", 5, 5 + nhigh);
    for &x in &xs {
        u.add_req(x, Req::Single(d_high));
        if r.chance(1, 4) {
            let ea = u.vs("e", 0, 100);
            u.add_req(x, Req::Single(ea));
        }
    }
    let r_any = u.vs("r", 0, 100);
    let a_any = u.vs("a", 0, 100);
    let e_any = u.vs("e", 0, 100);
    let d_low = u.vs("d", 1, nlow + 1);
    let un = if r.chance(1, 2) { u.union(vec![d_low, e_any]) } else { u.union(vec![e_any, d_low]) };
    let mut reqs = vec![Req::Single(r_any), Req::Single(a_any), Req::Union(un)];
    if r.chance(1, 3) {
        reqs.push(Req::Single(e_any));
    }
    if r.chance(1, 2) {
        r.shuffle(&mut reqs);
    }
    u.finalize();
    if r.chance(1, 3) {
        for p in &mut u.pkgs {
            p.hint = if r.chance(1, 2) { Hint::All } else { Hint::None };
        }
    }
    let mut soft: Vec<u32> = xs.clone();
    if r.chance(1, 3) {
        soft.push(*r.pick(&high));
    }
    if r.chance(1, 4) {
        soft.push(r.below(u.solvs.len() as u64) as u32);
    }
    r.shuffle(&mut soft);
    (u, Prob { reqs, cons: vec![], soft })
}

/// Shape: a soft solvable `t` whose run has to SEARCH (constrainer packages whose versions narrow
/// a shared package `w` from several sides, so that the run learns clauses above its own level)
/// and that is rejected LATE (a requirement chain of random length ending in a package without
/// candidates), followed by further soft requirements touching the same packages: whatever the
/// rejected attempt left behind (learnt clauses, activities, fetched metadata) is still there.
pub fn soft_learn_reject(r: &mut Rng) -> (Universe, Prob) {
    let mut u = Universe::default();
    let nw = 2 + r.below(3) as u32;
    for v in 1..=nw {
        u.solv("w", v);
    }
    let names = ["a", "b", "c"];
    let nc = 2 + r.below(2) as usize;
    let mut cvers: Vec<(usize, u32)> = vec![];
    for (i, nm) in names.iter().enumerate().take(nc) {
        let nv = 2 + r.below(2) as u32;
        for v in 1..=nv {
            let sid = u.solv(nm, v);
            cvers.push((i, v));
            // higher versions are the ones tried first: make them the narrowing ones
            if r.chance(if v == nv { 5 } else { 1 }, 6) {
                let lo = 1 + r.below(nw as u64) as u32;
                let hi = lo + 1 + r.below((nw + 1 - lo) as u64) as u32;
                let vs = u.vs("w", lo, hi);
                u.add_con(sid, vs);
            }
        }
    }
    let chain = r.below(4) as usize;
    let mut heads = vec![];
    for k in 0..chain {
        heads.push(u.solv(&format!("z{k}"), 1));
    }
    for k in 0..chain {
        let next = if k + 1 < chain { u.vs(&format!("z{}", k + 1), 0, 100) } else { u.vs("missing", 1, 2) };
        u.add_req(heads[k], Req::Single(next));
    }
    let t = u.solv("t", 1);
    let mut treqs = vec![];
    for nm in names.iter().take(nc) {
        treqs.push(Req::Single(u.vs(nm, 0, 100)));
    }
    if chain > 0 {
        treqs.push(Req::Single(u.vs("z0", 0, 100)));
    }
    treqs.push(Req::Single(u.vs("w", 0, 100)));
    if r.chance(1, 2) {
        r.shuffle(&mut treqs);
    }
    for q in treqs {
        u.add_req(t, q);
    }
    let mut soft = vec![t];
    let nu = 1 + r.below(3);
    for j in 0..nu {
        let us = u.solv(&format!("u{j}"), 1);
        let &(ci, v) = r.pick(&cvers);
        let vs = u.vs(names[ci], v, v + 1);
        u.add_req(us, Req::Single(vs));
        if r.chance(1, 4) {
            let wv = 1 + r.below(nw as u64) as u32;
            let wvs = u.vs("w", wv, wv + 1);
            u.add_req(us, Req::Single(wvs));
        }
        soft.push(us);
    }
    let mut reqs = vec![];
    if r.chance(1, 2) {
        u.solv("r", 1);
        reqs.push(Req::Single(u.vs("r", 0, 100)));
    }
    if r.chance(1, 6) {
        reqs.push(Req::Single(u.vs(names[0], 0, 100)));
    }
    // "missing": a package that exists by name only
    let m = u.pkg("missing");
    u.pkgs[m as usize].candidates = if r.chance(1, 2) { None } else { Some(vec![]) };
    u.finalize();
    if r.chance(1, 4) {
        for p in &mut u.pkgs {
            p.hint = if r.chance(1, 2) { Hint::All } else { Hint::None };
        }
    }
    if r.chance(1, 5) {
        r.shuffle(&mut soft);
    }
    (u, Prob { reqs, cons: vec![], soft })
}

/// Shape around the exemption of directly requested solvables (D15, D19): a package `px` nobody
/// requires in the hard problem, with an excluded and / or locked-out candidate that is requested
/// as a soft requirement, followed - immediately or after unrelated soft requirements - by soft
/// requirements that make the solver look at `px` (a constrains entry the accepted candidate
/// matches, a requirement it fulfils, a dependency chain ending there) and by trivially
/// installable ones. Order, hints, which list names the candidate and whether it has
/// dependencies of its own are randomised.
pub fn soft_exempt(r: &mut Rng) -> (Universe, Prob) {
    let mut u = Universe::default();
    let nx = 2 + r.below(3) as u32;
    let mut xs = vec![];
    for v in 1..=nx {
        xs.push(u.solv("px", v));
    }
    let x = *r.pick(&xs);
    let xver = u.solvs[x as usize].ver;
    // helpers
    u.solv("h", 1);
    let t1 = u.solv("t", 1);
    let h_any = u.vs("h", 0, 100);
    // x may have a dependency of its own (then it is not the last level of the trail)
    if r.chance(1, 3) {
        u.solv("xd", 1);
        let xd = u.vs("xd", 0, 100);
        u.add_req(x, Req::Single(xd));
    }
    // y: no requirements, constrains px to a range that contains x
    let y = u.solv("y", 1);
    let around = u.vs("px", xver.saturating_sub(r.below(2) as u32).max(1), xver + 1 + r.below(2) as u32);
    u.add_con(y, around);
    // w: requires px in a range x fulfils
    let w = u.solv("w", 1);
    let wide = if r.chance(1, 2) { u.vs("px", 0, 100) } else { u.vs("px", xver, xver + 1) };
    u.add_req(w, Req::Single(wide));
    // z: reaches px through a dependency
    let z = u.solv("z", 1);
    let w_any = u.vs("w", 0, 100);
    u.add_req(z, Req::Single(w_any));
    // q: constrains px to a range that does NOT contain x (must be rejected while x is installed)
    let q = u.solv("q", 1);
    let other = u.vs("px", xver + 1, xver + 2);
    u.add_con(q, other);
    u.finalize();
    let pxi = u.pkgs.iter().position(|p| p.name == "px").unwrap();
    match r.below(3) {
        0 => {
            let st = u.string("excluded");
            u.pkgs[pxi].excluded.push((x, st));
        }
        1 => {
            let others: Vec<u32> = xs.iter().copied().filter(|&s| s != x).collect();
            u.pkgs[pxi].locked = Some(*r.pick(&others));
        }
        _ => {
            let st = u.string("excluded");
            u.pkgs[pxi].excluded.push((x, st));
            if r.chance(1, 2) {
                let o = *r.pick(&xs);
                let st2 = u.string("not for this platform");
                if o != x {
                    u.pkgs[pxi].excluded.push((o, st2));
                }
            }
        }
    }
    match r.below(4) {
        0 => {
            for p in &mut u.pkgs {
                p.hint = Hint::All;
            }
        }
        1 => {
            for p in &mut u.pkgs {
                p.hint = if r.chance(1, 2) { Hint::All } else { Hint::None };
            }
        }
        _ => {}
    }
    // soft list: x first (mostly), then a random selection of the others in random order
    let mut rest = vec![y, w, z, t1, q];
    r.shuffle(&mut rest);
    rest.truncate(1 + r.below(4) as usize);
    let mut soft = vec![x];
    soft.extend(rest);
    if r.chance(1, 6) {
        r.shuffle(&mut soft);
    }
    let reqs = if r.chance(2, 3) { vec![Req::Single(h_any)] } else { vec![] };
    (u, Prob { reqs, cons: vec![], soft })
}

/// `conflict-chain`: a solve that goes through MANY learnt conflicts (the uniform families top out
/// at about six per solve). root requires a and b (best candidate b=2); a=1 requires c (2 | 1);
/// c=2 cannot be combined with x=1; b=2 requires w=1, which reaches x=1 through a chain of `k`
/// links. Every link costs the solver one or two conflicts (g<i>=1 rules out the preferred
/// versions of h<i> that j<i>=1 asks for) before it gets to the next link, so by the time the
/// solver finds out that c=2 and x=1 exclude each other it has learnt ~k clauses. The valid answer
/// with the best candidates of both direct requirements is {a=1, b=2, c=1, ...}: whatever counters,
/// intervals or activity effects depend on the number of conflicts, c=2 has to be revised, not b=2.
pub fn conflict_chain(r: &mut Rng) -> (Universe, Prob) {
    let mut u = Universe::default();
    let k = if crate::report::small() { r.below(5) } else { r.below(72) } as usize;
    let a1 = u.solv("a", 1);
    let b2 = u.solv("b", 2);
    // in half of the universes b=2 is the ONLY candidate: whatever goes wrong on the way down the
    // chain then shows as a wrong verdict, not just as a downgraded direct requirement
    let only_b2 = r.chance(1, 2);
    if !only_b2 {
        u.solv("b", 1);
    }
    let c2 = u.solv("c", 2);
    u.solv("c", 1);
    let w1 = u.solv("w", 1);
    u.solv("x", 1);
    let c_any = u.vs("c", 1, 3);
    u.add_req(a1, Req::Single(c_any));
    let x_none = u.vs("x", 0, 1);
    u.add_con(c2, x_none);
    let w_any = u.vs("w", 1, 2);
    u.add_req(b2, Req::Single(w_any));
    let mut parent = w1;
    let deep_h = r.chance(1, 3);
    for i in 0..k {
        let (f, g, j, h) = (format!("f{i}"), format!("g{i}"), format!("j{i}"), format!("h{i}"));
        let f1 = u.solv(&f, 1);
        let fv = u.vs(&f, 1, 2);
        u.add_req(parent, Req::Single(fv));
        match if r.chance(1, 8) { 2 } else { r.below(2) } {
            2 => {} // a plain link without a conflict
            variant => {
                let g1 = u.solv(&g, 1);
                let j1 = u.solv(&j, 1);
                let top = if deep_h && variant == 1 { 3 } else { 2 };
                for v in (1..=top).rev() {
                    u.solv(&h, v);
                }
                let gv = u.vs(&g, 1, 2);
                let jv = u.vs(&j, 1, 2);
                if r.chance(1, 2) {
                    u.add_req(f1, Req::Single(gv));
                    u.add_req(f1, Req::Single(jv));
                } else {
                    u.add_req(f1, Req::Single(jv));
                    u.add_req(f1, Req::Single(gv));
                }
                let h_low = u.vs(&h, 1, 2);
                u.add_con(g1, h_low);
                let h_any = u.vs(&h, 1, top + 1);
                u.add_req(j1, Req::Single(h_any));
            }
        }
        parent = f1;
    }
    let xv = u.vs("x", 1, 2);
    u.add_req(parent, Req::Single(xv));
    let ra = u.vs("a", 1, 2);
    let rb = u.vs("b", 1, 3);
    u.finalize();
    if r.chance(1, 4) {
        for p in &mut u.pkgs {
            p.hint = if r.chance(1, 2) { Hint::All } else { Hint::None };
        }
    }
    let reqs = if r.chance(1, 2) { vec![Req::Single(ra), Req::Single(rb)] } else { vec![Req::Single(rb), Req::Single(ra)] };
    (u, Prob { reqs, cons: vec![], soft: vec![] })
}

/// `wide-union`: a requirement that is a union of 31..48 version sets over as many packages
/// (general-purpose join combinators change strategy above ~30 futures), next to a small random
/// rest. Members are fetched concurrently; with hints their candidates' dependencies as well.
pub fn wide_union(r: &mut Rng) -> (Universe, Prob) {
    let mut u = Universe::default();
    let m = if crate::report::small() { 3 + r.below(3) } else { 31 + r.below(18) } as usize;
    let mut members = vec![];
    for i in 0..m {
        let name = format!("m{i}");
        let nver = 1 + r.below(2) as u32;
        for v in (1..=nver).rev() {
            let s = u.solv(&name, v);
            if r.chance(1, 4) {
                u.solv("leaf", 1);
                let lv = u.vs("leaf", 1, 2);
                u.add_req(s, Req::Single(lv));
            }
        }
        if r.chance(1, 6) {
            // a member without candidates
            members.push(u.vs(&name, 7, 8));
        } else {
            members.push(u.vs(&name, 1, 3));
        }
    }
    let un = u.union(members);
    let top = u.solv("top", 1);
    let at_root = r.chance(1, 2);
    if !at_root {
        u.add_req(top, Req::Union(un));
    }
    let topv = u.vs("top", 1, 2);
    u.finalize();
    if r.chance(1, 2) {
        for p in &mut u.pkgs {
            p.hint = if r.chance(2, 3) { Hint::All } else { Hint::None };
        }
    }
    u.union_iter = r.below(2) as u8;
    let mut reqs = vec![];
    if at_root {
        reqs.push(Req::Union(un));
        if r.chance(1, 2) {
            reqs.push(Req::Single(topv));
        }
    } else {
        reqs.push(Req::Single(topv));
    }
    (u, Prob { reqs, cons: vec![], soft: vec![] })
}

/// Permutations that spread every id space over a HUGE range (solvable ids beyond 2^16 and 2^17,
/// names / version sets up to ~70 000): dense tables indexed by id, two-level tables, "small ids in
/// an array, large ids in a map" hybrids and bit vectors all behave differently out there.
/// Returns (packages, solvables, version sets, unions, strings).
pub fn huge_perms(u: &Universe, r: &mut Rng) -> [Vec<u32>; 5] {
    fn spread(r: &mut Rng, n: usize, limit: u64) -> Vec<u32> {
        let mut seen = std::collections::BTreeSet::new();
        let mut out = vec![];
        while out.len() < n {
            // a third of the ids stay small, a third land around powers of two, the rest anywhere
            let x = match r.below(3) {
                0 => r.below(300),
                1 => {
                    let p = 1u64 << (10 + r.below(8));
                    (p + r.below(5)).saturating_sub(2).min(limit - 1)
                }
                _ => r.below(limit),
            } as u32;
            // an exhausted fuzzer tape answers 0 forever: probe linearly instead of drawing again
            let mut x = x;
            while !seen.insert(x) {
                x = (x + 1) % limit as u32;
            }
            out.push(x);
        }
        out
    }
    [spread(r, u.pkgs.len(), 70_000), spread(r, u.solvs.len(), 140_000), spread(r, u.vsets.len(), 70_000), spread(r, u.unions.len(), 3_000), spread(r, u.strings.len(), 3_000)]
}

/// A universe and several problems over it, renumbered with the same permutations.
pub fn renumber_all(u: &Universe, problems: &[Prob], perms: &[Vec<u32>; 5]) -> (Universe, Vec<Prob>) {
    let mut out_u = None;
    let mut out_p = vec![];
    for p in problems {
        let (u2, p2) = u.renumber(p, &perms[0], &perms[1], &perms[2], &perms[3], &perms[4]);
        out_u.get_or_insert(u2);
        out_p.push(p2);
    }
    (out_u.unwrap_or_else(|| u.clone()), out_p)
}

/// `union-abandon`: a randomised neighbourhood of a situation that conflict-clause MINIMISATION
/// has to get right. `p=1` requires the union `c=1 | d=1`; the first member is chosen by a decision
/// and abandoned later while the other member becomes true at a conflict level; `r=2` (preferred)
/// forces `d=1` and rules out `x=1`, `x=2` rules out `e=2`, `s=2` rules out `e=3`, `d=1` rules out
/// `e=1`, so the search runs through several conflicts whose analysis visits the parent of the
/// union, the decided candidate and literals of the decided candidate's own requirement; the
/// dependencies of `r=1` (which rules out `s=2`) arrive late (not hinted) and restart the run.
/// Nothing that only the abandoned `c=1` needed (an `e`) may be left in the answer.
pub fn union_abandon(r: &mut Rng) -> (Universe, Prob) {
    let mut u = Universe::default();
    let keep = |r: &mut Rng| r.chance(9, 10);
    let s2 = u.solv("s", 2);
    let s1 = u.solv("s", 1);
    let p1 = u.solv("p", 1);
    let c1 = u.solv("c", 1);
    let d1 = u.solv("d", 1);
    let r2 = u.solv("r", 2);
    let r1 = u.solv("r", 1);
    let x2 = u.solv("x", 2);
    let _x1 = u.solv("x", 1);
    let e3 = u.solv("e", 3);
    let _e2 = u.solv("e", 2);
    let e1 = u.solv("e", 1);
    if r.chance(1, 4) {
        u.solv("e", 4);
    }
    if r.chance(1, 5) {
        u.solv("x", 3);
    }
    if keep(r) {
        let v = u.vs("e", 1, 3);
        u.add_con(s2, v);
    }
    if keep(r) {
        let v = u.vs("c", 7, 8);
        u.add_con(s1, v);
    }
    let vc = u.vs("c", 1, 2);
    let vd = u.vs("d", 1, 2);
    let un = if r.chance(5, 6) { u.union(vec![vc, vd]) } else { u.union(vec![vd, vc]) };
    let vr = u.vs("r", 1, 3);
    let vx = u.vs("x", 1, 3);
    let mut preqs = vec![Req::Union(un), Req::Single(vr), Req::Single(vx)];
    if r.chance(1, 4) {
        r.shuffle(&mut preqs);
    }
    for q in preqs {
        u.add_req(p1, q);
    }
    let ve = u.vs("e", 1, 5);
    u.add_req(c1, Req::Single(ve));
    if keep(r) {
        let v = u.vs("e", 2, 5);
        u.add_con(d1, v);
    }
    if keep(r) {
        u.add_req(r2, Req::Single(vd));
    }
    if keep(r) {
        let v = u.vs("x", 2, 4);
        u.add_con(r2, v);
    }
    if keep(r) {
        let v = u.vs("s", 1, 2);
        u.add_con(r1, v);
    }
    if keep(r) {
        let v = u.vs_ext("e", "1|3+", vec![e1, e3]);
        u.add_con(x2, v);
    }
    let rs = u.vs("s", 1, 3);
    let rp = u.vs("p", 1, 2);
    u.finalize();
    // the "1|3+" set also matches versions above 3 if there are any
    let extra: Vec<u32> = u.solvs.iter().enumerate().filter(|(_, s)| u.pkgs[s.name as usize].name == "e" && s.ver > 3).map(|(i, _)| i as u32).collect();
    if let Some(v) = u.vsets.iter_mut().find(|v| v.label == "1|3+") {
        v.matching.extend(extra);
    }
    // everything is available up-front except (mostly) r=1
    for i in 0..u.pkgs.len() {
        let name = u.pkgs[i].name.clone();
        u.pkgs[i].hint = if name == "r" {
            if r.chance(5, 6) { Hint::Some(vec![r2]) } else { Hint::All }
        } else if r.chance(9, 10) {
            Hint::All
        } else {
            Hint::None
        };
    }
    let reqs = if r.chance(3, 4) { vec![Req::Single(rs), Req::Single(rp)] } else { vec![Req::Single(rp), Req::Single(rs)] };
    (u, Prob { reqs, cons: vec![], soft: vec![] })
}
