//! libFuzzer entry point: the input is the choice tape of the generator of the property named by
//! $RVMON_FUZZ_PROP; the oracle is that property's monitor (see harness/src/fuzz.rs).
#![no_main]
use libfuzzer_sys::fuzz_target;

fuzz_target!(|data: &[u8]| {
    rvmon::fuzz::one(data);
});
