// C17 differential driver: implements resolvo::DependencyProvider over the line based universe
// export written by `rvmon C17 --x-export`, calls resolvo::solve and prints one result line per
// problem ("<case seed> OK <ids...>" or "<case seed> ERR <message with \n escaped>").
#include <algorithm>
#include <cstdint>
#include <fstream>
#include <iostream>
#include <set>
#include <sstream>
#include <string>
#include <tuple>
#include <vector>

#include <resolvo.h>

struct Pkg {
    std::string name;
    bool missing = false;
    long favored = -1, locked = -1;
    std::vector<uint32_t> cands;
    std::vector<std::pair<uint32_t, uint32_t>> excl;
    std::vector<uint32_t> hint;
    resolvo::SolvableId fav_id{0}, lock_id{0};
};
struct Solv {
    uint32_t pkg = 0, ver = 0, rank = 0;
    resolvo::Dependencies deps;
};
struct VSet {
    uint32_t pkg = 0;
    std::string label;
    std::set<uint32_t> match;
};

struct Db : public resolvo::DependencyProvider {
    std::vector<Pkg> pkgs;
    std::vector<Solv> solvs;
    std::vector<VSet> vsets;
    std::vector<std::vector<resolvo::VersionSetId>> unions;
    std::vector<std::string> strings;
    uint64_t callbacks = 0;
    // scratch vectors reused across callbacks (size < capacity after clear())
    resolvo::Vector<resolvo::SolvableId> scratch, scratch_c;
    uint64_t slack_vectors = 0;
    uint64_t inner_pointers = 0;

    std::string solv_str(uint32_t s) {
        std::stringstream ss;
        ss << pkgs[solvs[s].pkg].name << "=" << solvs[s].ver;
        return ss.str();
    }
    resolvo::String display_solvable(resolvo::SolvableId s) override {
        callbacks++;
        return resolvo::String(solv_str(s.id));
    }
    resolvo::String display_merged_solvables(resolvo::Slice<resolvo::SolvableId> sl) override {
        callbacks++;
        if (sl.empty()) return resolvo::String();
        std::set<std::string> v;
        for (auto s : sl) v.insert(solv_str(s.id));
        std::stringstream ss;
        ss << pkgs[solvs[sl[0].id].pkg].name << " ";
        bool first = true;
        for (auto& x : v) {
            if (!first) ss << " | ";
            first = false;
            ss << x;
        }
        return resolvo::String(ss.str());
    }
    resolvo::String display_name(resolvo::NameId n) override {
        callbacks++;
        return resolvo::String(pkgs[n.id].name);
    }
    resolvo::String display_version_set(resolvo::VersionSetId v) override {
        callbacks++;
        return resolvo::String(vsets[v.id].label);
    }
    resolvo::String display_string(resolvo::StringId s) override {
        callbacks++;
        return resolvo::String(strings[s.id]);
    }
    resolvo::NameId version_set_name(resolvo::VersionSetId v) override { return resolvo::NameId{vsets[v.id].pkg}; }
    resolvo::NameId solvable_name(resolvo::SolvableId s) override { return resolvo::NameId{solvs[s.id].pkg}; }
    resolvo::Slice<resolvo::VersionSetId> version_sets_in_union(resolvo::VersionSetUnionId u) override {
        const auto& v = unions[u.id];
        return {v.data(), v.size()};
    }
    resolvo::Candidates get_candidates(resolvo::NameId n) override {
        callbacks++;
        resolvo::Candidates r;
        auto& p = pkgs[n.id];
        r.favored = nullptr;
        r.locked = nullptr;
        if (p.missing) return r;
        if (callbacks % 2 == 0) {
            scratch_c.clear();
            for (auto c : p.cands) scratch_c.push_back(resolvo::SolvableId{c});
            if (scratch_c.size() < scratch_c.capacity()) slack_vectors++;
            r.candidates = scratch_c;
        } else {
            for (auto c : p.cands) r.candidates.push_back(resolvo::SolvableId{c});
        }
        for (auto h : p.hint) r.hint_dependencies_available.push_back(resolvo::SolvableId{h});
        for (auto& e : p.excl)
            r.excluded.push_back(resolvo::ExcludedSolvable{resolvo::SolvableId{e.first}, resolvo::StringId{e.second}});
        if (p.favored >= 0) {
            p.fav_id = resolvo::SolvableId{(uint32_t)p.favored};
            r.favored = &p.fav_id;
        }
        if (p.locked >= 0) {
            p.lock_id = resolvo::SolvableId{(uint32_t)p.locked};
            r.locked = &p.lock_id;
        }
        // exercise copy / assignment of the struct that crosses the boundary
        resolvo::Candidates copy = r;
        if (callbacks % 3 == 0) {
            // a provider that keeps `favored` / `locked` alive by pointing them at elements of the
            // candidates vector it returns in the same struct (the storage travels with the struct)
            const resolvo::Vector<resolvo::SolvableId>& cv = copy.candidates;
            for (size_t i = 0; i < cv.size(); ++i) {
                if (p.favored >= 0 && cv.cbegin()[i].id == (uint32_t)p.favored) { copy.favored = cv.cbegin() + i; inner_pointers++; }
                if (p.locked >= 0 && cv.cbegin()[i].id == (uint32_t)p.locked) { copy.locked = cv.cbegin() + i; inner_pointers++; }
            }
        }
        return copy;
    }
    void sort_candidates(resolvo::Slice<resolvo::SolvableId> s) override {
        callbacks++;
        std::stable_sort(s.begin(), s.end(), [&](resolvo::SolvableId a, resolvo::SolvableId b) {
            return solvs[a.id].rank < solvs[b.id].rank;
        });
    }
    resolvo::Vector<resolvo::SolvableId> filter_candidates(resolvo::Slice<resolvo::SolvableId> c, resolvo::VersionSetId v,
                                                           bool inverse) override {
        callbacks++;
        const auto& vs = vsets[v.id];
        if (callbacks % 3 != 0) {
            // a provider that reuses a scratch member: clear() keeps the capacity of a uniquely
            // owned vector, so vectors with size < capacity cross the boundary
            scratch.clear();
            for (auto s : c) {
                bool m = vs.match.count(s.id) > 0;
                if (m != inverse) scratch.push_back(s);
            }
            if (scratch.size() < scratch.capacity()) slack_vectors++;
            return scratch;
        }
        resolvo::Vector<resolvo::SolvableId> r;
        for (auto s : c) {
            bool m = vs.match.count(s.id) > 0;
            if (m != inverse) r.push_back(s);
        }
        return r;
    }
    resolvo::Dependencies get_dependencies(resolvo::SolvableId s) override {
        callbacks++;
        return solvs[s.id].deps;
    }
};

static resolvo::Requirement mkreq(int kind, uint32_t id) {
    return kind == 0 ? resolvo::requirement_single(resolvo::VersionSetId{id})
                     : resolvo::requirement_union(resolvo::VersionSetUnionId{id});
}

int main(int argc, char** argv) {
    if (argc < 2) {
        std::cerr << "usage: diff_driver <export file>\n";
        return 2;
    }
    std::ifstream in(argv[1]);
    if (!in) {
        std::cerr << "cannot open " << argv[1] << "\n";
        return 2;
    }
    std::string tok;
    Db* db = nullptr;
    resolvo::Vector<resolvo::Requirement> reqs;
    resolvo::Vector<resolvo::VersionSetId> cons;
    resolvo::Vector<resolvo::SolvableId> soft;
    std::string line;
    uint64_t solved = 0, callbacks = 0, slack = 0, inner = 0;
    // the result vector is reused across problems in three ways: fresh, still owning the storage
    // of the previous solution, and sharing that storage with a copy the caller kept
    resolvo::Vector<resolvo::SolvableId> result;
    resolvo::Vector<resolvo::SolvableId> kept;
    std::vector<uint32_t> kept_shadow;
    while (std::getline(in, line)) {
        std::stringstream ls(line);
        ls >> tok;
        if (tok == "U") {
            if (db) { callbacks += db->callbacks; slack += db->slack_vectors; inner += db->inner_pointers; }
            delete db;
            db = new Db();
            size_t a, b, c, d, e;
            ls >> a >> b >> c >> d >> e;
            db->pkgs.resize(a);
            db->solvs.resize(b);
            db->vsets.resize(c);
            db->unions.resize(d);
            db->strings.resize(e);
            reqs = {};
            cons = {};
            soft = {};
        } else if (tok == "P") {
            size_t i, n;
            ls >> i;
            auto& p = db->pkgs[i];
            int miss;
            ls >> p.name >> miss >> p.favored >> p.locked >> n;
            p.missing = miss;
            p.cands.resize(n);
            for (auto& c : p.cands) ls >> c;
            ls >> n;
            p.excl.resize(n);
            for (auto& e : p.excl) ls >> e.first >> e.second;
            ls >> n;
            p.hint.resize(n);
            for (auto& h : p.hint) ls >> h;
        } else if (tok == "S") {
            size_t i, n;
            ls >> i;
            auto& s = db->solvs[i];
            ls >> s.pkg >> s.ver >> s.rank >> n;
            for (size_t k = 0; k < n; ++k) {
                int kind;
                uint32_t id;
                ls >> kind >> id;
                s.deps.requirements.push_back(mkreq(kind, id));
            }
            ls >> n;
            for (size_t k = 0; k < n; ++k) {
                uint32_t v;
                ls >> v;
                s.deps.constrains.push_back(resolvo::VersionSetId{v});
            }
        } else if (tok == "V") {
            size_t i, n;
            ls >> i;
            auto& v = db->vsets[i];
            ls >> v.pkg >> v.label >> n;
            for (size_t k = 0; k < n; ++k) {
                uint32_t m;
                ls >> m;
                v.match.insert(m);
            }
        } else if (tok == "N") {
            size_t i, n;
            ls >> i >> n;
            for (size_t k = 0; k < n; ++k) {
                uint32_t v;
                ls >> v;
                db->unions[i].push_back(resolvo::VersionSetId{v});
            }
        } else if (tok == "T") {
            size_t i;
            ls >> i;
            ls >> db->strings[i];
        } else if (tok == "R") {
            size_t n;
            ls >> n;
            for (size_t k = 0; k < n; ++k) {
                int kind;
                uint32_t id;
                ls >> kind >> id;
                reqs.push_back(mkreq(kind, id));
            }
            ls >> n;
            for (size_t k = 0; k < n; ++k) {
                uint32_t v;
                ls >> v;
                cons.push_back(resolvo::VersionSetId{v});
            }
            ls >> n;
            for (size_t k = 0; k < n; ++k) {
                uint32_t v;
                ls >> v;
                soft.push_back(resolvo::SolvableId{v});
            }
        } else if (tok == "#") {
            std::string seed;
            ls >> seed;
            switch (solved % 3) {
                case 0:
                    result = resolvo::Vector<resolvo::SolvableId>();
                    break;
                case 1:
                    break;  // keeps whatever the previous solve stored
                case 2:
                    kept = result;  // shares the storage
                    kept_shadow.clear();
                    {
                        // read through a const reference: the non-const begin() would detach `kept`
                        // from `result` and the two would no longer share storage during the solve
                        const auto& ck = kept;
                        for (auto it = ck.cbegin(); it != ck.cend(); ++it) kept_shadow.push_back(it->id);
                    }
                    break;
            }
            // a shared copy of the inputs must survive the call untouched
            auto reqs_copy = reqs;
            resolvo::Problem problem = {reqs, cons, soft};
            auto err = resolvo::solve(*db, problem, result);
            solved++;
            {
                // the copy kept by the caller must be unaffected by the solve that overwrote `result`
                const auto& ck = kept;
                bool same = ck.size() == kept_shadow.size();
                size_t k = 0;
                for (auto it = ck.cbegin(); same && it != ck.cend(); ++it, ++k) same = it->id == kept_shadow[k];
                if (!same) {
                    std::cout << seed << " CORRUPTED a copy of an earlier result changed\n";
                    continue;
                }
            }
            if (!(reqs_copy == reqs)) {
                std::cout << seed << " CORRUPTED problem requirements changed by solve\n";
                continue;
            }
            std::string_view e = err;
            auto result_copy = result;  // shared copy of a vector allocated by Rust
            if (e.empty()) {
                std::cout << seed << " OK";
                for (auto s : result_copy) std::cout << " " << s.id;
                std::cout << "\n";
            } else if (result_copy.size() != 0) {
                // resolvo.h: "If the solve was unsuccesfull an error describing the reason is returned
                // and the result vector will be empty."
                std::cout << seed << " STALE result vector holds " << result_copy.size() << " solvables after a failed solve\n";
            } else {
                std::string o;
                for (char c : e) {
                    if (c == '\n')
                        o += "\\n";
                    else
                        o += c;
                }
                std::cout << seed << " ERR " << o << "\n";
            }
        }
    }
    if (db) callbacks += db->callbacks;
    if (db) slack += db->slack_vectors;
    if (db) inner += db->inner_pointers;
    delete db;
    std::cerr << "solved=" << solved << " callbacks=" << callbacks << " vectors_with_slack_returned=" << slack << " favored_or_locked_pointing_into_returned_vector=" << inner << "\n";
    return 0;
}
