// C17 container driver: seeded random operation sequences on resolvo::Vector<T>, resolvo::String
// and resolvo::Slice<T>, shadowed by std containers. Run under ASan+UBSan+LSan and valgrind.
//   container_driver <seed> <sequences> <ops per sequence> [alias]
#include <cstdint>
#include <cstring>
#include <functional>
#include <iostream>
#include <sstream>
#include <string>
#include <unordered_set>
#include <vector>

#include <resolvo.h>

static uint64_t rng_state = 1;
// Coverage-guided mode (-DCONTAINER_FUZZ, clang -fsanitize=fuzzer): choices are read from the
// fuzzer's input, one byte per small choice, so that a mutation of the input is a small mutation
// of the operation sequence; an exhausted tape answers 0.
static const uint8_t* tape = nullptr;
static size_t tape_len = 0, tape_pos = 0;
static uint64_t take(int n) {
    uint64_t v = 0;
    for (int i = 0; i < n; ++i) {
        v = (v << 8) | (tape_pos < tape_len ? tape[tape_pos] : 0);
        tape_pos++;
    }
    return v;
}
static uint64_t rnd() {
    if (tape) return take(8);
    rng_state += 0x9E3779B97F4A7C15ull;
    uint64_t z = rng_state;
    z = (z ^ (z >> 30)) * 0xBF58476D1CE4E5B9ull;
    z = (z ^ (z >> 27)) * 0x94D049BB133111EBull;
    return z ^ (z >> 31);
}
static uint64_t below(uint64_t n) {
    if (tape && n) return n == 1 ? 0 : (n <= 256 ? take(1) % n : (n <= 65536 ? take(2) % n : take(8) % n));
    return n ? rnd() % n : 0;
}

static uint64_t ops_done = 0, checks_done = 0, growths = 0, shared_mutations = 0, moved_aliases = 0;
static bool allow_alias = false;

[[noreturn]] static void fail(const std::string& what) {
    std::cout << "MISMATCH " << what << std::endl;
#ifdef CONTAINER_FUZZ
    std::abort();  // libFuzzer keeps the input
#endif
    std::exit(1);
}

template <typename T>
struct Elem;
template <>
struct Elem<int> {
    using S = int;
    static int make(uint32_t k) { return (int)k - 500; }
    static int shadow(uint32_t k) { return (int)k - 500; }
    static bool eq(const int& a, const int& b) { return a == b; }
    static int dflt() { return 0; }
};
template <>
struct Elem<resolvo::SolvableId> {
    using S = uint32_t;
    static resolvo::SolvableId make(uint32_t k) { return resolvo::SolvableId{k}; }
    static uint32_t shadow(uint32_t k) { return k; }
    static bool eq(const resolvo::SolvableId& a, const uint32_t& b) { return a.id == b; }
    static uint32_t dflt() { return 0; }
};
static std::string str_of(uint32_t k) {
    std::string s = "s" + std::to_string(k);
    if (k % 7 == 0) s += std::string(k % 300, 'x');
    if (k % 11 == 0) s += "\xc3\xa9\xe2\x82\xac";  // non-ASCII UTF-8
    return s;
}
template <>
struct Elem<resolvo::String> {
    using S = std::string;
    static resolvo::String make(uint32_t k) { return resolvo::String(str_of(k)); }
    static std::string shadow(uint32_t k) { return str_of(k); }
    static bool eq(const resolvo::String& a, const std::string& b) { return std::string_view(a) == b; }
    static std::string dflt() { return ""; }
};

// Large elements: growth policies that reason in bytes ("a block of a page or more grows by
// 1.5x", "at least 4 elements unless they are large") behave differently for them.
template <size_t N>
struct Big {
    uint32_t tag;
    unsigned char pad[N];
    Big() : tag(0) { std::memset(pad, 0, N); }
    explicit Big(uint32_t k) : tag(k) { std::memset(pad, (unsigned char)k, N); }
    bool operator==(const Big& o) const { return tag == o.tag && std::memcmp(pad, o.pad, N) == 0; }
    bool operator!=(const Big& o) const { return !(*this == o); }
};
template <size_t N>
struct Elem<Big<N>> {
    using S = uint32_t;
    static Big<N> make(uint32_t k) { return Big<N>(k); }
    static uint32_t shadow(uint32_t k) { return k; }
    static bool eq(const Big<N>& a, const uint32_t& b) { return a.tag == b && a.pad[0] == (unsigned char)b && a.pad[N - 1] == (unsigned char)b; }
    static uint32_t dflt() { return 0; }
};

template <typename T>
static void verify(const resolvo::Vector<T>& v, const std::vector<typename Elem<T>::S>& s, const char* what) {
    checks_done++;
    if (v.size() != s.size()) fail(std::string(what) + ": size " + std::to_string(v.size()) + " vs " + std::to_string(s.size()));
    if (v.empty() != s.empty()) fail(std::string(what) + ": empty()");
    if (v.capacity() < v.size()) fail(std::string(what) + ": capacity < size");
    size_t i = 0;
    for (auto it = v.cbegin(); it != v.cend(); ++it, ++i)
        if (!Elem<T>::eq(*it, s[i])) fail(std::string(what) + ": element " + std::to_string(i));
    for (i = 0; i < s.size(); ++i)
        if (!Elem<T>::eq(v.at(i), s[i])) fail(std::string(what) + ": at(" + std::to_string(i) + ")");
}

// A single-pass input iterator (the category of std::istream_iterator): copies share the source,
// advancing any copy consumes it for all.
template <typename T>
struct OnePassSrc {
    std::vector<uint32_t> keys;
    size_t pos = 0;
};
template <typename T>
struct OnePassIt {
    using iterator_category = std::input_iterator_tag;
    using value_type = T;
    using difference_type = std::ptrdiff_t;
    using pointer = const T*;
    using reference = T;
    OnePassSrc<T>* src = nullptr;  // nullptr = end of range
    uint32_t cur = 0;
    OnePassIt() = default;
    explicit OnePassIt(OnePassSrc<T>* s) : src(s) { advance(); }
    void advance() {
        if (src && src->pos < src->keys.size())
            cur = src->keys[src->pos++];
        else
            src = nullptr;
    }
    T operator*() const { return Elem<T>::make(cur); }
    OnePassIt& operator++() {
        advance();
        return *this;
    }
    OnePassIt operator++(int) {
        OnePassIt t = *this;
        advance();
        return t;
    }
    bool operator==(const OnePassIt& o) const { return src == o.src; }
    bool operator!=(const OnePassIt& o) const { return src != o.src; }
};
static uint64_t one_pass_ranges = 0, slice_writes = 0;

// Sizes: mostly small; one in sixteen is LARGE (hundreds of elements, around powers of two and in
// between), because capacity policies tend to switch strategy above some size.
template <typename T>
static size_t pick_size(size_t small) {
    if (below(16) != 0) return (size_t)below(small);
    size_t cap = sizeof(T) > 1024 ? 140 : 700;
    switch (below(4)) {
        case 0: return 250 + (size_t)below(20);   // just below / above 256
        case 1: return (size_t)below(cap);
        case 2: return ((size_t)1 << (4 + below(6))) + (size_t)below(3) - 1;  // 2^k - 1 .. 2^k + 1
        default: return 257 + (size_t)below(cap > 257 ? cap - 257 : 1);
    }
}

template <typename T>
static void run_vec(uint64_t nops, const char* tname) {
    using S = typename Elem<T>::S;
    const int K = 4;
    std::vector<resolvo::Vector<T>> rv(K);
    std::vector<std::vector<S>> sv(K);
    for (uint64_t op = 0; op < nops; ++op) {
        ops_done++;
        int i = (int)below(K), j = (int)below(K);
        switch (below(allow_alias ? 19 : 16)) {  // "alias" adds v.push_back(v[k]) and v.push_back(std::move(v[k]))
            case 0:
                rv[i] = resolvo::Vector<T>();
                sv[i].clear();
                break;
            case 1: {
                size_t n = pick_size<T>(20);
                rv[i] = resolvo::Vector<T>(n);
                sv[i] = std::vector<S>(n, Elem<T>::dflt());
                break;
            }
            case 2: {
                size_t n = (size_t)below(20);
                uint32_t k = (uint32_t)below(1000);
                T val = Elem<T>::make(k);
                rv[i] = resolvo::Vector<T>(n, val);
                sv[i] = std::vector<S>(n, Elem<T>::shadow(k));
                break;
            }
            case 3: {
                uint32_t a = (uint32_t)below(1000), b = (uint32_t)below(1000), c = (uint32_t)below(1000);
                rv[i] = resolvo::Vector<T>{Elem<T>::make(a), Elem<T>::make(b), Elem<T>::make(c)};
                sv[i] = {Elem<T>::shadow(a), Elem<T>::shadow(b), Elem<T>::shadow(c)};
                break;
            }
            case 4: {
                std::vector<T> src;
                std::vector<S> ssrc;
                size_t n = pick_size<T>(12);
                for (size_t k = 0; k < n; ++k) {
                    uint32_t x = (uint32_t)below(1000);
                    src.push_back(Elem<T>::make(x));
                    ssrc.push_back(Elem<T>::shadow(x));
                }
                rv[i] = resolvo::Vector<T>(src.begin(), src.end());
                sv[i] = ssrc;
                break;
            }
            case 5: {
                resolvo::Vector<T> tmp(rv[j]);  // copy construct: shares
                auto stmp = sv[j];
                rv[i] = tmp;
                sv[i] = stmp;
                break;
            }
            case 6:
                rv[i] = rv[j];  // copy assign (self assign when i == j)
                sv[i] = std::vector<S>(sv[j]);
                break;
            case 7: {
                resolvo::Vector<T> tmp(rv[j]);
                auto stmp = sv[j];
                rv[i] = std::move(tmp);  // move assign (swap)
                sv[i] = stmp;
                break;
            }
            case 8: {
                size_t n = 1 + (size_t)below(12);
                for (size_t k = 0; k < n; ++k) {
                    uint32_t x = (uint32_t)below(1000);
                    T val = Elem<T>::make(x);
                    size_t cap = rv[i].capacity();
                    rv[i].push_back(val);
                    if (rv[i].capacity() != cap) growths++;
                    sv[i].push_back(Elem<T>::shadow(x));
                }
                break;
            }
            case 9: {
                uint32_t x = (uint32_t)below(1000);
                rv[i].push_back(Elem<T>::make(x));
                sv[i].push_back(Elem<T>::shadow(x));
                break;
            }
            case 10:
                rv[i].clear();
                sv[i].clear();
                break;
            case 11:
                if (!sv[i].empty()) {
                    size_t k = (size_t)below(sv[i].size());
                    uint32_t x = (uint32_t)below(1000);
                    rv[i][k] = Elem<T>::make(x);  // non-const index: detaches when shared
                    sv[i][k] = Elem<T>::shadow(x);
                    shared_mutations++;
                }
                break;
            case 12:
                if (!sv[i].empty()) {
                    size_t k = (size_t)below(sv[i].size());
                    const resolvo::Vector<T>& cv = rv[i];
                    if (!Elem<T>::eq(cv[k], sv[i][k]) || !Elem<T>::eq(cv.at(k), sv[i][k])) fail("const index");
                }
                break;
            case 13: {
                bool a = rv[i] == rv[j];
                bool b = sv[i] == sv[j];
                if (a != b) fail(std::string(tname) + ": operator==");
                break;
            }
            case 14: {
                resolvo::Slice<T> s = rv[i];  // mutable slice: detaches when shared
                if (s.size() != sv[i].size() || s.empty() != sv[i].empty()) fail("slice size");
                size_t k = 0;
                for (auto it = s.begin(); it != s.end(); ++it, ++k)
                    if (!Elem<T>::eq(*it, sv[i][k])) fail("slice element");
                for (k = 0; k < s.size(); ++k)
                    if (!Elem<T>::eq(s[k], sv[i][k])) fail("slice index");
                // write through the mutable slice (what sort_candidates does with the slice it is
                // given): only this vector may change, copies that shared the storage must not
                if (!s.empty()) {
                    size_t w = (size_t)below(s.size());
                    uint32_t y = (uint32_t)below(1000);
                    s[w] = Elem<T>::make(y);
                    sv[i][w] = Elem<T>::shadow(y);
                    slice_writes++;
                }
                break;
            }
            case 15: {
                // (Vector::operator Slice<const T>() const does not compile when instantiated; the
                // const view is exercised through cbegin()/cend() instead)
                const resolvo::Vector<T>& cv = rv[i];
                size_t k = 0;
                for (auto it = cv.begin(); it != cv.end(); ++it, ++k)
                    if (!Elem<T>::eq(*it, sv[i][k])) fail("const iteration element");
                if (k != sv[i].size()) fail("const iteration length");
                break;
            }
            case 16:
                // element of the vector itself passed to push_back (std::vector guarantees this)
                if (!sv[i].empty()) {
                    size_t k = (size_t)below(sv[i].size());
                    const resolvo::Vector<T>& cv = rv[i];
                    rv[i].push_back(cv[k]);
                    S x = sv[i][k];
                    sv[i].push_back(x);
                }
                break;
            case 18: {
                // range constructor fed by a single-pass input iterator
                OnePassSrc<T> src;
                std::vector<S> ssrc;
                size_t n = pick_size<T>(9);
                for (size_t k = 0; k < n; ++k) {
                    uint32_t x = (uint32_t)below(1000);
                    src.keys.push_back(x);
                    ssrc.push_back(Elem<T>::shadow(x));
                }
                rv[i] = resolvo::Vector<T>(OnePassIt<T>(&src), OnePassIt<T>());
                sv[i] = ssrc;
                one_pass_ranges++;
                break;
            }
            case 17:
                // element of the vector itself moved into push_back (std::vector guarantees this);
                // the moved-from element is given a fresh value afterwards
                if (!sv[i].empty()) {
                    size_t k = (size_t)below(sv[i].size());
                    S x = sv[i][k];
                    rv[i].push_back(std::move(rv[i][k]));
                    sv[i].push_back(x);
                    uint32_t y = (uint32_t)below(1000);
                    rv[i][k] = Elem<T>::make(y);
                    sv[i][k] = Elem<T>::shadow(y);
                    moved_aliases++;
                }
                break;
        }
        for (int k = 0; k < K; ++k) verify<T>(rv[k], sv[k], tname);
    }
}

static std::string rand_string() {
    switch (below(8)) {
        case 0:
            return "";
        case 1:
            return std::string((size_t)below(5000), 'a' + (char)below(26));
        case 2:
            // (embedded NUL bytes are not round-tripped by the const char* based view; not part of C17)
            return std::string("tab\there");
        case 3:
            return "\xc3\xa9\xe2\x82\xac\xf0\x9f\x98\x80";
        default:
            return str_of((uint32_t)below(2000));
    }
}

static void run_string(uint64_t nops) {
    const int K = 4;
    std::vector<resolvo::String> rs(K);
    std::vector<std::string> ss(K);
    for (uint64_t op = 0; op < nops; ++op) {
        ops_done++;
        int i = (int)below(K), j = (int)below(K);
        switch (below(9)) {
            case 0: {
                auto s = rand_string();
                rs[i] = resolvo::String(std::string_view(s));
                ss[i] = s;
                break;
            }
            case 1: {
                auto s = str_of((uint32_t)below(2000));
                rs[i] = resolvo::String(s.c_str());
                ss[i] = s;
                break;
            }
            case 2: {
                resolvo::String tmp(rs[j]);
                auto stmp = ss[j];
                rs[i] = tmp;
                ss[i] = stmp;
                break;
            }
            case 3:
                rs[i] = rs[j];
                ss[i] = std::string(ss[j]);
                break;
            case 4: {
                auto s = rand_string();
                rs[i] = std::string_view(s);
                ss[i] = s;
                break;
            }
            case 5: {
                auto s = str_of((uint32_t)below(2000));
                rs[i] = s.c_str();
                ss[i] = s;
                break;
            }
            case 6: {
                resolvo::String tmp(rs[j]);
                auto stmp = ss[j];
                rs[i] = std::move(tmp);
                ss[i] = stmp;
                break;
            }
            case 7:
                if ((rs[i] == rs[j]) != (ss[i] == ss[j]) || (rs[i] != rs[j]) != (ss[i] != ss[j])) fail("String ==/!=");
                break;
            case 8: {
                std::stringstream st;
                st << rs[i];
                if (st.str() != ss[i]) fail("String stream output");
                std::hash<resolvo::String> h;
                std::hash<std::string_view> hs;
                if (h(rs[i]) != hs(std::string_view(ss[i]))) fail("String hash");
                std::unordered_set<resolvo::String> set;
                set.insert(rs[i]);
                set.insert(rs[j]);
                if (set.size() != (ss[i] == ss[j] ? 1u : 2u)) fail("String in unordered_set");
                break;
            }
        }
        for (int k = 0; k < K; ++k) {
            checks_done++;
            std::string_view v = rs[k];
            if (v != std::string_view(ss[k])) fail("String contents");
            const char* d = rs[k].data();
            if (d[ss[k].size()] != '\0') fail("String not null terminated");
            if (std::memcmp(d, ss[k].data(), ss[k].size()) != 0) fail("String data()");
        }
    }
}

#ifdef CONTAINER_FUZZ
extern "C" int LLVMFuzzerTestOneInput(const uint8_t* data, size_t size) {
    tape = data;
    tape_len = size;
    tape_pos = 0;
    allow_alias = true;
    uint64_t nops = 20 + below(200);
    switch (below(6)) {
        case 0: run_vec<int>(nops, "Vector<int>"); break;
        case 1: run_vec<resolvo::SolvableId>(nops, "Vector<SolvableId>"); break;
        case 2: run_vec<resolvo::String>(nops, "Vector<String>"); break;
        case 3: run_vec<Big<1100>>(nops / 2, "Vector<Big<1100>>"); break;
        case 4: run_vec<Big<4200>>(nops / 2, "Vector<Big<4200>>"); break;
        default: run_string(nops); break;
    }
    return 0;
}
#else
int main(int argc, char** argv) {
    uint64_t seed = argc > 1 ? std::strtoull(argv[1], nullptr, 10) : 1;
    uint64_t nseq = argc > 2 ? std::strtoull(argv[2], nullptr, 10) : 100;
    uint64_t nops = argc > 3 ? std::strtoull(argv[3], nullptr, 10) : 200;
    allow_alias = argc > 4 && std::string(argv[4]) == "alias";
    for (uint64_t s = 0; s < nseq; ++s) {
        rng_state = seed * 1000003ull + s;
        run_vec<int>(nops, "Vector<int>");
        run_vec<resolvo::SolvableId>(nops, "Vector<SolvableId>");
        run_vec<resolvo::String>(nops, "Vector<String>");
        if (s % 4 == 0) {
            run_vec<Big<1100>>(nops / 3, "Vector<Big<1100>>");
            run_vec<Big<4200>>(nops / 3, "Vector<Big<4200>>");
        }
        run_string(nops);
    }
    std::cout << "OK sequences=" << nseq * 4 << " ops=" << ops_done << " checks=" << checks_done << " growths=" << growths
              << " mutations_through_index=" << shared_mutations << " moved_from_own_element=" << moved_aliases << " single_pass_ranges=" << one_pass_ranges << " writes_through_slices=" << slice_writes << std::endl;
    return 0;
}
#endif
