#include <cstdint>
#include <cstddef>
#include <resolvo_vector.h>
int main() {
    const resolvo::Vector<uint32_t> v{1, 2, 3};
    resolvo::Slice<const uint32_t> s = v;  // uses Vector::operator Slice<const T>() const
    return s.size() == 3 ? 0 : 1;
}
