#include <algorithm>
#include <cstdint>
#include <cstdio>
#include <cstdlib>
#include <cstring>
#include <sstream>
#include <string>
#include <string_view>
#include <vector>

#include <resolvo.h>
#include <resolvo_pool.h>

// ---------------------------------------------------------------------------------------------
// A small in-memory package database implementing resolvo::DependencyProvider.
// ---------------------------------------------------------------------------------------------
struct Candidate {
    resolvo::NameId name;
    uint32_t version;
    std::vector<resolvo::Requirement> requirements;
    std::vector<resolvo::VersionSetId> constrains;
};

struct VersionSet {
    resolvo::NameId name;
    uint32_t version_start;
    uint32_t version_end;
};

struct PackageDatabase : public resolvo::DependencyProvider {
    resolvo::Pool<resolvo::NameId, resolvo::String> names;
    resolvo::Pool<resolvo::StringId, resolvo::String> strings;
    std::vector<Candidate> candidates;
    std::vector<VersionSet> version_sets;
    std::vector<std::vector<resolvo::VersionSetId>> version_set_unions;

    resolvo::VersionSetId alloc_version_set(std::string_view package, uint32_t version_start,
                                            uint32_t version_end) {
        auto name_id = names.alloc(resolvo::String(package));
        auto id = resolvo::VersionSetId{static_cast<uint32_t>(version_sets.size())};
        version_sets.push_back(VersionSet{name_id, version_start, version_end});
        return id;
    }

    resolvo::Requirement alloc_requirement(std::string_view package, uint32_t version_start,
                                           uint32_t version_end) {
        return resolvo::requirement_single(alloc_version_set(package, version_start, version_end));
    }

    resolvo::SolvableId alloc_candidate(std::string_view name, uint32_t version,
                                        std::vector<resolvo::Requirement> requirements = {},
                                        std::vector<resolvo::VersionSetId> constrains = {}) {
        auto name_id = names.alloc(resolvo::String(name));
        auto id = resolvo::SolvableId{static_cast<uint32_t>(candidates.size())};
        candidates.push_back(
            Candidate{name_id, version, std::move(requirements), std::move(constrains)});
        return id;
    }

    resolvo::String display_name(resolvo::NameId name) override {
        return resolvo::String(names[name]);
    }

    resolvo::String display_solvable(resolvo::SolvableId solvable) override {
        const auto& candidate = candidates[solvable.id];
        std::stringstream ss;
        ss << names[candidate.name] << "=" << candidate.version;
        return resolvo::String(ss.str());
    }

    resolvo::String display_merged_solvables(
        resolvo::Slice<resolvo::SolvableId> solvables) override {
        if (solvables.empty()) {
            return resolvo::String();
        }
        std::stringstream ss;
        ss << names[candidates[solvables[0].id].name] << " ";
        bool first = true;
        for (const auto& solvable : solvables) {
            if (!first) ss << " | ";
            first = false;
            ss << candidates[solvable.id].version;
        }
        return resolvo::String(ss.str());
    }

    resolvo::String display_version_set(resolvo::VersionSetId version_set) override {
        const auto& req = version_sets[version_set.id];
        std::stringstream ss;
        ss << req.version_start << ".." << req.version_end;
        return resolvo::String(ss.str());
    }

    resolvo::String display_string(resolvo::StringId string_id) override {
        return strings[string_id];
    }

    resolvo::NameId version_set_name(resolvo::VersionSetId version_set_id) override {
        return version_sets[version_set_id.id].name;
    }

    resolvo::NameId solvable_name(resolvo::SolvableId solvable_id) override {
        return candidates[solvable_id.id].name;
    }

    resolvo::Slice<resolvo::VersionSetId> version_sets_in_union(
        resolvo::VersionSetUnionId version_set_union_id) override {
        const auto& version_set_ids = version_set_unions[version_set_union_id.id];
        return {version_set_ids.data(), version_set_ids.size()};
    }

    resolvo::Candidates get_candidates(resolvo::NameId package) override {
        resolvo::Candidates result;
        for (uint32_t i = 0; i < static_cast<uint32_t>(candidates.size()); ++i) {
            if (candidates[i].name != package) continue;
            result.candidates.push_back(resolvo::SolvableId{i});
            result.hint_dependencies_available.push_back(resolvo::SolvableId{i});
        }
        result.favored = nullptr;
        result.locked = nullptr;
        return result;
    }

    void sort_candidates(resolvo::Slice<resolvo::SolvableId> solvables) override {
        std::sort(solvables.begin(), solvables.end(),
                  [&](resolvo::SolvableId a, resolvo::SolvableId b) {
                      return candidates[a.id].version > candidates[b.id].version;
                  });
    }

    resolvo::Vector<resolvo::SolvableId> filter_candidates(
        resolvo::Slice<resolvo::SolvableId> solvables, resolvo::VersionSetId version_set_id,
        bool inverse) override {
        resolvo::Vector<resolvo::SolvableId> result;
        const auto& version_set = version_sets[version_set_id.id];
        for (auto solvable : solvables) {
            const auto& candidate = candidates[solvable.id];
            bool matches = candidate.version >= version_set.version_start &&
                           candidate.version < version_set.version_end;
            if (matches != inverse) result.push_back(solvable);
        }
        return result;
    }

    resolvo::Dependencies get_dependencies(resolvo::SolvableId solvable) override {
        const auto& candidate = candidates[solvable.id];
        resolvo::Dependencies deps;
        // Convert the std::vectors of the database into the shared vector type.
        deps.requirements = resolvo::Vector<resolvo::Requirement>(candidate.requirements.begin(),
                                                                  candidate.requirements.end());
        deps.constrains = resolvo::Vector<resolvo::VersionSetId>(candidate.constrains.begin(),
                                                                 candidate.constrains.end());
        return deps;
    }
};

#define CHECK(cond)                                                                  \
    do {                                                                             \
        if (!(cond)) {                                                               \
            std::fprintf(stderr, "%s:%d: CHECK failed: %s\n", __FILE__, __LINE__, #cond); \
            std::exit(1);                                                            \
        }                                                                            \
    } while (0)
int main() {
    PackageDatabase db;
    auto a1 = db.alloc_candidate("a", 1);
    resolvo::Vector<resolvo::SolvableId> result;
    {
        resolvo::Vector<resolvo::Requirement> requirements = {db.alloc_requirement("a", 1, 2)};
        resolvo::Vector<resolvo::VersionSetId> constraints = {};
        resolvo::Problem problem = {requirements, constraints, {}};
        auto err = resolvo::solve(db, problem, result);
        CHECK(std::string_view(err).empty());
        CHECK(result.size() == 1 && result[0] == a1);
    }
    {
        resolvo::Vector<resolvo::Requirement> requirements = {db.alloc_requirement("a", 5, 6)};
        resolvo::Vector<resolvo::VersionSetId> constraints = {};
        resolvo::Problem problem = {requirements, constraints, {}};
        auto err = resolvo::solve(db, problem, result);
        CHECK(!std::string_view(err).empty());
        // resolvo.h: "If the solve was unsuccesfull an error describing the reason is returned
        // and the result vector will be empty."
        CHECK(result.empty());
    }
    return 0;
}
