//! C19, unchanged tree: a serde round trip of a `Mapping` does not preserve the contents when the
//! value type itself serialises to `null` (`Option<T>::None`, `()`): the wire format is
//! `Vec<Option<V>>`, in which "slot is empty" and "slot holds a value that serialises as null" are
//! indistinguishable, so such entries silently disappear (len shrinks, get returns None).
//!
//! Drop-in for `tests/`; run with `cargo test --offline --features serde --test pristine_repro`.
use resolvo::{Mapping, NameId};

#[test]
fn roundtrip_loses_entries_whose_value_is_none() {
    let mut m: Mapping<NameId, Option<u32>> = Mapping::default();
    m.insert(NameId(0), Some(1));
    m.insert(NameId(1), None); // a stored pair (1, None)
    m.insert(NameId(2), Some(3));
    assert_eq!(m.len(), 3);
    assert_eq!(m.get(NameId(1)), Some(&None));

    let json = serde_json::to_string(&m).unwrap();
    assert_eq!(json, "[1,null,3]");
    let back: Mapping<NameId, Option<u32>> = serde_json::from_str(&json).unwrap();

    let got: Vec<(u32, Option<u32>)> = back.iter().map(|(k, v)| (k.0, *v)).collect();
    let want: Vec<(u32, Option<u32>)> = m.iter().map(|(k, v)| (k.0, *v)).collect();
    assert_eq!(back.len(), m.len(), "len after round trip");
    assert_eq!(got, want, "contents after round trip");
}

#[test]
fn roundtrip_loses_unit_values() {
    // A `Mapping<Id, ()>` used as a set.
    let mut m: Mapping<NameId, ()> = Mapping::default();
    m.insert(NameId(4), ());
    m.insert(NameId(200), ());
    let json = serde_json::to_string(&m).unwrap();
    let back: Mapping<NameId, ()> = serde_json::from_str(&json).unwrap();
    assert_eq!(back.len(), 2, "len after round trip");
    assert!(back.get(NameId(200)).is_some());
}
