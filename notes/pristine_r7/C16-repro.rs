//! Observation made while fuzzing C16. It is NOT a C16 violation (the live provider and the
//! snapshot agree), but the result is invalid against the provider's data: a soft requirement
//! for a solvable that the provider *excludes* ends up in the solution when nothing else makes
//! the solver fetch the candidates of its package (the exclusion clauses are only added when the
//! candidates of a package are requested through a requirement / constraint).
use std::fmt::Display;

use resolvo::{
    Candidates, Dependencies, DependencyProvider, HintDependenciesAvailable, Interner,
    KnownDependencies, NameId, Problem, SolvableId, Solver, SolverCache, StringId, VersionSetId,
    VersionSetUnionId, snapshot::DependencySnapshot,
};

/// One package `a` with the versions 1 and 2 (solvable ids 0 and 1); `a=1` is excluded.
#[derive(Clone)]
struct P {
    /// whether the excluded solvable is also listed in `Candidates::candidates`
    excluded_in_candidates: bool,
}

impl Interner for P {
    fn display_solvable(&self, solvable: SolvableId) -> impl Display + '_ {
        format!("a={}", solvable.0 + 1)
    }
    fn display_name(&self, _name: NameId) -> impl Display + '_ {
        "a"
    }
    fn display_version_set(&self, _version_set: VersionSetId) -> impl Display + '_ {
        "*"
    }
    fn display_string(&self, _string_id: StringId) -> impl Display + '_ {
        "a=1 is excluded"
    }
    fn version_set_name(&self, _version_set: VersionSetId) -> NameId {
        NameId(0)
    }
    fn solvable_name(&self, _solvable: SolvableId) -> NameId {
        NameId(0)
    }
    fn version_sets_in_union(&self, _: VersionSetUnionId) -> impl Iterator<Item = VersionSetId> {
        std::iter::empty()
    }
}

impl DependencyProvider for P {
    async fn filter_candidates(
        &self,
        candidates: &[SolvableId],
        _version_set: VersionSetId,
        inverse: bool,
    ) -> Vec<SolvableId> {
        if inverse { vec![] } else { candidates.to_vec() }
    }

    async fn get_candidates(&self, _name: NameId) -> Option<Candidates> {
        Some(Candidates {
            candidates: if self.excluded_in_candidates {
                vec![SolvableId(0), SolvableId(1)]
            } else {
                vec![SolvableId(1)]
            },
            hint_dependencies_available: HintDependenciesAvailable::All,
            excluded: vec![(SolvableId(0), StringId(0))],
            ..Candidates::default()
        })
    }

    async fn sort_candidates(&self, _solver: &SolverCache<Self>, solvables: &mut [SolvableId]) {
        solvables.sort_by_key(|s| std::cmp::Reverse(s.0));
    }

    async fn get_dependencies(&self, _solvable: SolvableId) -> Dependencies {
        Dependencies::Known(KnownDependencies::default())
    }
}

fn solve_soft(provider: impl DependencyProvider) -> Vec<SolvableId> {
    let mut solver = Solver::new(provider);
    solver
        .solve(Problem::new().soft_requirements([SolvableId(0)]))
        .expect("no hard requirements, must be solvable")
}

#[test]
fn soft_requirement_on_excluded_solvable_listed_in_candidates() {
    let solution = solve_soft(P { excluded_in_candidates: true });
    assert!(
        !solution.contains(&SolvableId(0)),
        "the excluded solvable a=1 was installed: {solution:?}"
    );
}

#[test]
fn soft_requirement_on_excluded_solvable_not_listed_in_candidates() {
    let solution = solve_soft(P { excluded_in_candidates: false });
    assert!(
        !solution.contains(&SolvableId(0)),
        "the excluded solvable a=1 was installed: {solution:?}"
    );
}

#[test]
fn snapshot_agrees_with_live_provider() {
    for excluded_in_candidates in [true, false] {
        let live = P { excluded_in_candidates };
        let snapshot =
            DependencySnapshot::from_provider(live.clone(), [NameId(0)], [], []).unwrap();
        assert_eq!(solve_soft(live), solve_soft(snapshot.provider()));
    }
}
