//! C09, unchanged tree: after a *cancelled* solve, a later conflict-free solve on the same solver
//! requests candidates for a name that neither the root nor any solvable of its solution
//! mentions.
//!
//! solve 1 (`a<=2`) selects `a=2`, obtains its dependencies (`a=2` requires `b`) and is cancelled
//! right before the candidates of `b` are requested. solve 2 (`a`, any version) installs `a=3`
//! (no dependencies). `a=2` is a lower-ranked candidate of that requirement; because its
//! dependencies are in the cache it is encoded eagerly and the request that solve 1 did not get
//! to make - `get_candidates(b)` - is made now, although nothing of `b` can be needed.
//!
//! Judgement: borderline. The call is causally justified (the dependencies of `a=2` were
//! obtained) and nothing is requested twice, but by the letter of the exactness clause
//! ("candidates for exactly the names [the solution's] dependencies and the root mention")
//! solve 2 violates it. Without the cancelled solve the call would have been made by solve 1.

use std::{
    any::Any,
    cell::{Cell, RefCell},
    fmt::Display,
};

use resolvo::{
    Candidates, Dependencies, DependencyProvider, HintDependenciesAvailable, Interner,
    KnownDependencies, NameId, Problem, Requirement, SolvableId, Solver, SolverCache, StringId,
    UnsolvableOrCancelled, VersionSetId, VersionSetUnionId,
};

const NAMES: [&str; 2] = ["a", "b"];
/// (name, version); index = solvable id
const SOLVABLES: [(u32, u32); 3] = [(0, 2), (0, 3), (1, 1)];
/// (name, max version); index = version set id
const VERSION_SETS: [(u32, u32); 3] = [(0, 2), (0, 9), (1, 9)];

#[derive(Default)]
struct Provider {
    log: RefCell<Vec<String>>,
    cancel_polls: Cell<u32>,
    cancel_at: Cell<Option<u32>>,
}

impl Interner for Provider {
    fn display_solvable(&self, s: SolvableId) -> impl Display + '_ {
        format!("{}={}", NAMES[SOLVABLES[s.0 as usize].0 as usize], SOLVABLES[s.0 as usize].1)
    }
    fn display_name(&self, name: NameId) -> impl Display + '_ {
        NAMES[name.0 as usize]
    }
    fn display_version_set(&self, vs: VersionSetId) -> impl Display + '_ {
        format!("<={}", VERSION_SETS[vs.0 as usize].1)
    }
    fn display_string(&self, s: StringId) -> impl Display + '_ {
        format!("string {}", s.0)
    }
    fn version_set_name(&self, vs: VersionSetId) -> NameId {
        NameId(VERSION_SETS[vs.0 as usize].0)
    }
    fn solvable_name(&self, s: SolvableId) -> NameId {
        NameId(SOLVABLES[s.0 as usize].0)
    }
    fn version_sets_in_union(&self, _: VersionSetUnionId) -> impl Iterator<Item = VersionSetId> {
        std::iter::empty()
    }
}

impl DependencyProvider for Provider {
    async fn filter_candidates(
        &self,
        candidates: &[SolvableId],
        version_set: VersionSetId,
        inverse: bool,
    ) -> Vec<SolvableId> {
        let max = VERSION_SETS[version_set.0 as usize].1;
        candidates
            .iter()
            .copied()
            .filter(|s| (SOLVABLES[s.0 as usize].1 <= max) != inverse)
            .collect()
    }
    async fn get_candidates(&self, name: NameId) -> Option<Candidates> {
        self.log.borrow_mut().push(format!("candidates({})", NAMES[name.0 as usize]));
        Some(Candidates {
            candidates: (0..SOLVABLES.len() as u32)
                .filter(|&s| SOLVABLES[s as usize].0 == name.0)
                .map(SolvableId)
                .collect(),
            hint_dependencies_available: HintDependenciesAvailable::None,
            ..Candidates::default()
        })
    }
    async fn sort_candidates(&self, _: &SolverCache<Self>, solvables: &mut [SolvableId]) {
        solvables.sort_by_key(|s| std::cmp::Reverse(SOLVABLES[s.0 as usize].1));
    }
    async fn get_dependencies(&self, solvable: SolvableId) -> Dependencies {
        self.log.borrow_mut().push(format!("dependencies({})", self.display_solvable(solvable)));
        Dependencies::Known(KnownDependencies {
            // a=2 requires b
            requirements: if solvable.0 == 0 { vec![Requirement::Single(VersionSetId(2))] } else { vec![] },
            constrains: vec![],
        })
    }
    fn should_cancel_with_value(&self) -> Option<Box<dyn Any>> {
        let poll = self.cancel_polls.get();
        self.cancel_polls.set(poll + 1);
        (self.cancel_at.get() == Some(poll)).then(|| Box::new(poll) as Box<dyn Any>)
    }
}

#[test]
fn solve_after_cancelled_solve_requests_candidates_outside_its_solution() {
    // Find the cancellation point at which the dependencies of a=2 are known but the candidates
    // of b have not been requested yet.
    let mut reproduced = false;
    for cancel_at in 0..20 {
        let provider = Provider::default();
        provider.cancel_at.set(Some(cancel_at));
        let mut solver = Solver::new(provider);
        let first = solver.solve(Problem::new().requirements(vec![Requirement::Single(VersionSetId(0))]));
        let log = solver.provider().log.borrow().clone();
        if !matches!(first, Err(UnsolvableOrCancelled::Cancelled(_)))
            || !log.contains(&"dependencies(a=2)".to_string())
            || log.contains(&"candidates(b)".to_string())
        {
            continue;
        }
        reproduced = true;

        // no more cancellation; a conflict-free problem whose solution is a=3 alone
        solver.provider().cancel_at.set(None);
        solver.provider().log.borrow_mut().clear();
        let second = solver
            .solve(Problem::new().requirements(vec![Requirement::Single(VersionSetId(1))]))
            .expect("solvable");
        assert_eq!(second, vec![SolvableId(1)], "a=3");
        let log = solver.provider().log.borrow().clone();
        assert_eq!(
            log,
            vec!["dependencies(a=3)".to_string()],
            "solve 2 (cancel point {cancel_at}) should only request the dependencies of a=3 \
             (the candidates of a are cached)"
        );
    }
    assert!(reproduced, "no cancellation point between dependencies(a=2) and candidates(b)");
}
