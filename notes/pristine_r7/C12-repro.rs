//! C12 reproducer for the UNCHANGED tree (drop into `tests/`):
//! a cancellation value that `should_cancel_with_value` returns at a poll made by
//! `SolverCache::get_or_cache_dependencies` / `get_or_cache_candidates` is lost when that cache
//! query was made re-entrantly by the provider from `sort_candidates` (the documented use of the
//! `&SolverCache` argument). `sort_candidates` returns `()`, so the provider cannot hand the
//! value back, and the cache does not remember it.
//!
//! * `transient_cancellation_in_reentrant_query_is_lost`: cancellation signalled at exactly one
//!   poll -> `solve` returns `Ok(solution)`.
//! * `sticky_cancellation_in_reentrant_query_can_still_end_in_a_solution`: cancellation that
//!   stays on from poll k onwards -> `solve` still returns `Ok(solution)` when the remaining
//!   work (a soft requirement that turns out to be unsatisfiable) needs no further poll.

use std::{
    any::Any,
    cell::{Cell, RefCell},
    fmt::Display,
};

use resolvo::{
    Candidates, Dependencies, DependencyProvider, Interner, KnownDependencies, NameId, Problem,
    Requirement, SolvableId, Solver, SolverCache, StringId, UnsolvableOrCancelled, VersionSetId,
    VersionSetUnionId,
};

// names: 0 = a, 1 = b, 2 = d
// solvables: 0 = a1, 1 = a2, 2 = b1, 3 = d1
// version sets: 0 = a (any), 1 = a ==1, 2 = d (any)
// b1 requires `a ==1` and `d`; the root requires `a`, the soft requirement is b1.
const SOLVABLE_NAME: [u32; 4] = [0, 0, 1, 2];
const SOLVABLE_VERSION: [u32; 4] = [1, 2, 1, 1];
const NAMES: [&str; 3] = ["a", "b", "d"];

#[derive(Clone, Copy, PartialEq, Debug)]
enum Mode {
    Never,
    Only(usize),
    From(usize),
}

struct Provider {
    mode: Cell<Mode>,
    polls: Cell<usize>,
    in_sort: Cell<bool>,
    /// for each poll: was it made from within `sort_candidates`?
    poll_in_sort: RefCell<Vec<bool>>,
    fetches_after_fire: Cell<usize>,
    fired: Cell<bool>,
}

impl Interner for Provider {
    fn display_solvable(&self, s: SolvableId) -> impl Display + '_ {
        format!("{}={}", NAMES[SOLVABLE_NAME[s.0 as usize] as usize], SOLVABLE_VERSION[s.0 as usize])
    }
    fn display_name(&self, n: NameId) -> impl Display + '_ {
        NAMES[n.0 as usize]
    }
    fn display_version_set(&self, v: VersionSetId) -> impl Display + '_ {
        ["*", "==1", "*"][v.0 as usize]
    }
    fn display_string(&self, _: StringId) -> impl Display + '_ {
        ""
    }
    fn version_set_name(&self, v: VersionSetId) -> NameId {
        NameId([0, 0, 2][v.0 as usize])
    }
    fn solvable_name(&self, s: SolvableId) -> NameId {
        NameId(SOLVABLE_NAME[s.0 as usize])
    }
    fn version_sets_in_union(&self, _: VersionSetUnionId) -> impl Iterator<Item = VersionSetId> {
        std::iter::empty()
    }
}

impl DependencyProvider for Provider {
    async fn filter_candidates(
        &self,
        candidates: &[SolvableId],
        vs: VersionSetId,
        inverse: bool,
    ) -> Vec<SolvableId> {
        candidates
            .iter()
            .copied()
            .filter(|c| (vs.0 != 1 || SOLVABLE_VERSION[c.0 as usize] == 1) != inverse)
            .collect()
    }

    async fn get_candidates(&self, name: NameId) -> Option<Candidates> {
        if self.fired.get() {
            self.fetches_after_fire.set(self.fetches_after_fire.get() + 1);
        }
        Some(Candidates {
            candidates: (0..4u32)
                .filter(|&s| SOLVABLE_NAME[s as usize] == name.0)
                .map(SolvableId)
                .collect(),
            ..Candidates::default()
        })
    }

    async fn sort_candidates(&self, solver: &SolverCache<Self>, solvables: &mut [SolvableId]) {
        // A provider that looks at the dependencies of the candidates to rank them (this is what
        // the `&SolverCache` argument is for). It cannot do anything with an `Err`.
        self.in_sort.set(true);
        for &s in solvables.iter() {
            let _ = solver.get_or_cache_dependencies(s).await;
        }
        self.in_sort.set(false);
        solvables.sort_by_key(|s| std::cmp::Reverse(SOLVABLE_VERSION[s.0 as usize]));
    }

    async fn get_dependencies(&self, s: SolvableId) -> Dependencies {
        if self.fired.get() {
            self.fetches_after_fire.set(self.fetches_after_fire.get() + 1);
        }
        Dependencies::Known(KnownDependencies {
            // b1 requires a ==1 and d
            requirements: if s.0 == 2 {
                vec![
                    Requirement::Single(VersionSetId(1)),
                    Requirement::Single(VersionSetId(2)),
                ]
            } else {
                vec![]
            },
            constrains: vec![],
        })
    }

    fn should_cancel_with_value(&self) -> Option<Box<dyn Any>> {
        let k = self.polls.get();
        self.polls.set(k + 1);
        self.poll_in_sort.borrow_mut().push(self.in_sort.get());
        let fire = match self.mode.get() {
            Mode::Never => false,
            Mode::Only(at) => k == at,
            Mode::From(at) => k >= at,
        };
        if fire {
            self.fired.set(true);
            Some(Box::new(k))
        } else {
            None
        }
    }
}

fn run(mode: Mode, with_soft: bool) -> (Result<Vec<u32>, Option<usize>>, Vec<bool>, usize) {
    let provider = Provider {
        mode: Cell::new(mode),
        polls: Cell::new(0),
        in_sort: Cell::new(false),
        poll_in_sort: RefCell::new(Vec::new()),
        fetches_after_fire: Cell::new(0),
        fired: Cell::new(false),
    };
    let mut solver = Solver::new(provider);
    let soft = if with_soft { vec![SolvableId(2)] } else { vec![] };
    let problem = Problem::new()
        .requirements(vec![Requirement::Single(VersionSetId(0))])
        .soft_requirements(soft);
    let result = match solver.solve(problem) {
        Ok(solution) => Ok(solution.into_iter().map(|s| s.0).collect()),
        Err(UnsolvableOrCancelled::Cancelled(v)) => Err(v.downcast::<usize>().ok().map(|v| *v)),
        Err(UnsolvableOrCancelled::Unsolvable(_)) => panic!("unexpected conflict"),
    };
    let polls = solver.provider().poll_in_sort.borrow().clone();
    let fetches = solver.provider().fetches_after_fire.get();
    (result, polls, fetches)
}

#[test]
fn transient_cancellation_in_reentrant_query_is_lost() {
    let (baseline, polls, _) = run(Mode::Never, false);
    assert_eq!(baseline, Ok(vec![1])); // a2
    for k in 0..polls.len() {
        let (result, _, fetches) = run(Mode::Only(k), false);
        assert_eq!(
            result,
            Err(Some(k)),
            "cancellation signalled at poll {k} (made from within sort_candidates: {}) was not honoured",
            polls[k]
        );
        assert_eq!(fetches, 0);
    }
}

#[test]
fn sticky_cancellation_in_reentrant_query_can_still_end_in_a_solution() {
    let (baseline, polls, _) = run(Mode::Never, true);
    assert_eq!(baseline, Ok(vec![1])); // a2; b1 cannot be installed (needs a1)
    for k in 0..polls.len() {
        let (result, _, fetches) = run(Mode::From(k), true);
        assert!(
            result.is_err(),
            "cancellation signalled from poll {k} on (made from within sort_candidates: {}): solve returned the solution {result:?}",
            polls[k]
        );
        assert_eq!(fetches, 0);
    }
}
