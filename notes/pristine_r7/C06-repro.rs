//! C06 reproducer for the UNCHANGED tree: solving the same problem a second time on
//! the same `Solver` gives a different answer than the first time (and than any fresh
//! solver), with a plain deterministic, non-yielding provider without hints.
//!
//! Cause: `Solver::solve` resets `SolverState` but keeps the `SolverCache`.
//! `SolverCache::are_dependencies_available_for` answers `true` for every solvable
//! whose dependencies were fetched by an earlier solve, so in the second solve
//! `Encoder::on_requirement_candidates_available` encodes these candidates eagerly
//! (as if the provider had hinted them). The clauses therefore exist earlier and in
//! another order, unit propagation / the decision heuristic take other routes and
//! another (valid) solution, or the same solution in another order, comes out.
//!
//! Drop into `tests/`; `cargo test --offline --features serde --test pristine_repro`.

#![allow(dead_code)]
use std::{any::Any, fmt::Display};

use resolvo::{
    Candidates, Dependencies, DependencyProvider, HintDependenciesAvailable, Interner,
    KnownDependencies, NameId, Problem, Requirement, SolvableId, Solver, SolverCache, StringId,
    UnsolvableOrCancelled, VersionSetId, VersionSetUnionId,
};

#[derive(Default, Clone)]
struct World {
    names: Vec<String>,
    /// (name, version)
    solvables: Vec<(u32, u32)>,
    /// (name, lo, hi) inclusive
    version_sets: Vec<(u32, u32, u32)>,
    unions: Vec<Vec<u32>>,
    /// per solvable: (requirements, constrains)
    deps: Vec<(Vec<Requirement>, Vec<VersionSetId>)>,
}

impl World {
    fn name(&mut self, n: &str) -> u32 {
        if let Some(i) = self.names.iter().position(|x| x == n) {
            return i as u32;
        }
        self.names.push(n.to_string());
        (self.names.len() - 1) as u32
    }
    fn solvable(&mut self, n: &str, version: u32) -> SolvableId {
        let name = self.name(n);
        self.solvables.push((name, version));
        self.deps.push((vec![], vec![]));
        SolvableId((self.solvables.len() - 1) as u32)
    }
    fn vs(&mut self, n: &str, lo: u32, hi: u32) -> VersionSetId {
        let name = self.name(n);
        self.version_sets.push((name, lo, hi));
        VersionSetId((self.version_sets.len() - 1) as u32)
    }
    fn union(&mut self, sets: &[VersionSetId]) -> Requirement {
        self.unions.push(sets.iter().map(|v| v.0).collect());
        Requirement::Union(VersionSetUnionId((self.unions.len() - 1) as u32))
    }
}

impl Interner for World {
    fn display_solvable(&self, s: SolvableId) -> impl Display + '_ {
        let (n, v) = self.solvables[s.0 as usize];
        format!("{}={}", self.names[n as usize], v)
    }
    fn display_name(&self, name: NameId) -> impl Display + '_ {
        self.names[name.0 as usize].clone()
    }
    fn display_version_set(&self, vs: VersionSetId) -> impl Display + '_ {
        let (_, lo, hi) = self.version_sets[vs.0 as usize];
        format!("[{lo}..{hi}]")
    }
    fn display_string(&self, _: StringId) -> impl Display + '_ {
        "string"
    }
    fn version_set_name(&self, vs: VersionSetId) -> NameId {
        NameId(self.version_sets[vs.0 as usize].0)
    }
    fn solvable_name(&self, s: SolvableId) -> NameId {
        NameId(self.solvables[s.0 as usize].0)
    }
    fn version_sets_in_union(&self, u: VersionSetUnionId) -> impl Iterator<Item = VersionSetId> {
        self.unions[u.0 as usize].iter().map(|&v| VersionSetId(v))
    }
}

impl DependencyProvider for World {
    async fn filter_candidates(
        &self,
        candidates: &[SolvableId],
        vs: VersionSetId,
        inverse: bool,
    ) -> Vec<SolvableId> {
        let (_, lo, hi) = self.version_sets[vs.0 as usize];
        candidates
            .iter()
            .copied()
            .filter(|c| {
                let v = self.solvables[c.0 as usize].1;
                (v >= lo && v <= hi) != inverse
            })
            .collect()
    }
    async fn get_candidates(&self, name: NameId) -> Option<Candidates> {
        let candidates: Vec<SolvableId> = (0..self.solvables.len())
            .filter(|&i| self.solvables[i].0 == name.0)
            .map(|i| SolvableId(i as u32))
            .collect();
        Some(Candidates {
            candidates,
            hint_dependencies_available: HintDependenciesAvailable::None,
            ..Candidates::default()
        })
    }
    async fn sort_candidates(&self, _: &SolverCache<Self>, solvables: &mut [SolvableId]) {
        // highest version first
        solvables.sort_by_key(|s| std::cmp::Reverse(self.solvables[s.0 as usize].1));
    }
    async fn get_dependencies(&self, s: SolvableId) -> Dependencies {
        let (requirements, constrains) = self.deps[s.0 as usize].clone();
        Dependencies::Known(KnownDependencies {
            requirements,
            constrains,
        })
    }
    fn should_cancel_with_value(&self) -> Option<Box<dyn Any>> {
        None
    }
}

fn render(solver: &mut Solver<World>, requirements: &[Requirement]) -> String {
    let problem = Problem::new().requirements(requirements.to_vec());
    match solver.solve(problem) {
        Ok(solvables) => solvables
            .iter()
            .map(|&s| solver.provider().display_solvable(s).to_string())
            .collect::<Vec<_>>()
            .join(" "),
        Err(UnsolvableOrCancelled::Unsolvable(c)) => {
            format!("UNSAT\n{}", c.display_user_friendly(&*solver))
        }
        Err(UnsolvableOrCancelled::Cancelled(_)) => "cancelled".to_string(),
    }
}

/// `a=1` requires `b` and `c`: the order of the solution changes.
fn order_world() -> (World, Vec<Requirement>) {
    let mut w = World::default();
    let a = w.solvable("a", 1);
    w.solvable("b", 1);
    w.solvable("c", 1);
    let b = w.vs("b", 1, 1);
    let c = w.vs("c", 1, 1);
    w.deps[a.0 as usize].0 = vec![b.into(), c.into()];
    let root = vec![w.vs("a", 1, 1).into()];
    (w, root)
}

/// 4 packages / 7 solvables: a different set of solvables is selected.
fn set_world() -> (World, Vec<Requirement>) {
    let mut w = World::default();
    let p0_1 = w.solvable("p0", 1);
    let p1_1 = w.solvable("p1", 1);
    let p1_2 = w.solvable("p1", 2);
    let p1_3 = w.solvable("p1", 3);
    let p2_1 = w.solvable("p2", 1);
    let p2_2 = w.solvable("p2", 2);
    let p3_1 = w.solvable("p3", 1);
    let d = |s: SolvableId| s.0 as usize;

    let v = w.vs("p1", 1, 2);
    w.deps[d(p0_1)].0 = vec![v.into()];

    let r1 = w.vs("p2", 2, 2);
    let r2 = w.vs("p2", 1, 2);
    let c = w.vs("p2", 1, 2);
    w.deps[d(p1_1)] = (vec![r1.into(), r2.into()], vec![c]);

    let c = w.vs("p2", 1, 2);
    w.deps[d(p1_2)].1 = vec![c];

    let r = w.vs("p0", 1, 1);
    w.deps[d(p1_3)].0 = vec![r.into()];

    let c = w.vs("p3", 1, 1);
    w.deps[d(p2_1)].1 = vec![c];

    let r = w.vs("p1", 1, 1);
    w.deps[d(p2_2)].0 = vec![r.into()];

    let r = w.vs("p2", 1, 2);
    let c = w.vs("p0", 1, 1);
    w.deps[d(p3_1)] = (vec![r.into()], vec![c]);

    let root = vec![w.vs("p3", 1, 1).into(), w.vs("p0", 1, 1).into()];
    (w, root)
}

fn check(world: fn() -> (World, Vec<Requirement>)) {
    // Two fresh solvers agree ...
    let (w, root) = world();
    let fresh1 = render(&mut Solver::new(w), &root);
    let (w, root) = world();
    let mut solver = Solver::new(w);
    let first = render(&mut solver, &root);
    assert_eq!(fresh1, first, "two fresh solvers disagree");
    // ... but the same solver does not agree with itself.
    let second = render(&mut solver, &root);
    assert_eq!(first, second, "second solve() on the same solver differs from the first");
}

#[test]
fn repeated_solve_same_order() {
    check(order_world);
}

#[test]
fn repeated_solve_same_solution() {
    check(set_world);
}
