//! C18 pristine reproducer (drop into `tests/`, fails on the unchanged tree: the test process
//! aborts, `cargo test --offline --features serde --test pristine_repro`).
//!
//! `FrozenCopyMap::{get_copy, insert_copy}` (src/internal/frozen_copy_map.rs) dereference the
//! `UnsafeCell<HashMap>` and call `HashMap::get` / `HashMap::insert`, which run user code: the
//! `Hash` / `Eq` impls of the package name type `N` (and of `VS` for version sets). Nothing stops
//! that user code from calling back into the same pool (`Pool` interns through `&self`). A nested
//! `intern_package_name` then creates a second `&mut HashMap` and mutates / resizes the table
//! while the outer `insert` is in the middle of `reserve_rehash` (hashbrown re-hashes every key
//! during a resize): the outer call continues on a freed table. All code below is safe Rust.
//!
//! Observed: debug build aborts with "unsafe precondition(s) violated: slice::from_raw_parts ..."
//! inside `<String as Hash>::hash` called from `RawTable::reserve_rehash` (5/5 runs);
//! `cargo +nightly miri test` (tree borrows) reports UB at frozen_copy_map.rs:16 already with 40
//! names. elsa's `FrozenMap` guards against exactly this with an `in_use` flag that panics.
use std::cell::Cell;
use std::fmt::{Display, Formatter};
use std::hash::{Hash, Hasher};
use std::rc::Rc;

use resolvo::utils::{Pool, VersionSet};

#[derive(Clone, PartialEq, Eq, Hash, Debug)]
struct Vs;
#[derive(Clone, PartialEq, Eq, Debug)]
struct V;
impl Display for V {
    fn fmt(&self, f: &mut Formatter<'_>) -> std::fmt::Result {
        write!(f, "v")
    }
}
impl VersionSet for Vs {
    type V = V;
}

thread_local! {
    static POOL: Rc<Pool<Vs, Name>> = Rc::new(Pool::new());
    static DEPTH: Cell<u32> = const { Cell::new(0) };
    static COUNTER: Cell<u32> = const { Cell::new(0) };
}

#[derive(Clone, Debug)]
struct Name(String);
impl PartialEq for Name {
    fn eq(&self, o: &Self) -> bool {
        self.0 == o.0
    }
}
impl Eq for Name {}
impl Hash for Name {
    fn hash<H: Hasher>(&self, state: &mut H) {
        // "lazily register an alias" the first time a name is hashed: safe code, legal signature
        if DEPTH.get() == 0 && self.0.starts_with("pkg") {
            DEPTH.set(1);
            let n = COUNTER.get();
            COUNTER.set(n + 1);
            POOL.with(|p| p.intern_package_name(Name(format!("alias-{n}"))));
            DEPTH.set(0);
        }
        self.0.hash(state);
    }
}

#[test]
fn reentrant_hash() {
    let pool = POOL.with(|p| p.clone());
    let total = if cfg!(miri) { 40 } else { 5000 };
    let mut ids = vec![];
    for i in 0..total {
        ids.push(pool.intern_package_name(Name(format!("pkg{i}"))));
    }
    for (i, id) in ids.iter().enumerate() {
        assert_eq!(pool.resolve_package_name(*id).0, format!("pkg{i}"));
        DEPTH.set(1);
        assert_eq!(pool.lookup_package_name(&Name(format!("pkg{i}"))), Some(*id), "pkg{i}");
        DEPTH.set(0);
    }
}
