//! OBSERVATION ON THE UNPATCHED CODE (borderline - a limitation of the public API rather
//! than a solver bug, reported for completeness).
//!
//! `SolverCache::get_or_cache_candidates` / `get_or_cache_dependencies` poll
//! `should_cancel_with_value` also when they are called re-entrantly by the provider from inside
//! `DependencyProvider::sort_candidates`. If cancellation is signalled at exactly such a poll the
//! value is handed to the *provider* as `Err(value)`; `sort_candidates` returns `()`, so it cannot
//! be passed on to the solver. When the signal is only transient (the next poll answers `None`
//! again) the solver therefore carries on, starts further requests and finally reports a
//! solution although one of its own polls was answered with `Some(value)`. With a persistent
//! signal the next regular poll still catches it (but then carries the value of that later
//! poll, not of the first one).
//!
//! This test FAILS on the unpatched code.
use std::{
    any::Any,
    cell::{Cell, RefCell},
    collections::{HashMap, HashSet},
    fmt::Display,
};

use resolvo::{
    Candidates, Dependencies, DependencyProvider, HintDependenciesAvailable, Interner,
    KnownDependencies, NameId, Problem, Requirement, SolvableId, Solver, SolverCache, StringId,
    UnsolvableOrCancelled, VersionSetId, VersionSetUnionId,
};

/// Everything the provider was asked, in order.
#[derive(Debug, Clone, PartialEq, Eq)]
enum Ev {
    /// `should_cancel_with_value` was polled; `Some(k)` if it answered with value `k`.
    Poll(Option<usize>),
    Candidates(&'static str),
    Dependencies(&'static str, u32),
}

/// A tiny table driven provider. Ids are plain indices into the tables.
#[derive(Default)]
struct World {
    names: Vec<&'static str>,
    /// (name, version)
    solvables: Vec<(usize, u32)>,
    /// (name, lowest version, highest version) - inclusive
    version_sets: Vec<(usize, u32, u32)>,
    unions: Vec<Vec<VersionSetId>>,
    deps: HashMap<usize, KnownDependencies>,
    hint_all: bool,
    /// A package whose candidates `sort_candidates` looks up through the `SolverCache` it is
    /// handed (like the conda provider does to compare the dependencies of two candidates).
    reentrant_lookup: Option<usize>,

    /// Poll indices (0-based) at which cancellation is signalled for that single poll only.
    fire_at_polls: HashSet<usize>,
    /// Raise a persistent cancellation flag while this request is being served.
    raise_flag_during: Option<Ev>,

    flag: Cell<bool>,
    polls: Cell<usize>,
    log: RefCell<Vec<Ev>>,
}

impl World {
    fn name(&mut self, name: &'static str) -> usize {
        if let Some(idx) = self.names.iter().position(|n| *n == name) {
            return idx;
        }
        self.names.push(name);
        self.names.len() - 1
    }

    fn solvable(&mut self, name: &'static str, version: u32) -> SolvableId {
        let name = self.name(name);
        self.solvables.push((name, version));
        SolvableId((self.solvables.len() - 1) as u32)
    }

    fn version_set(&mut self, name: &'static str, lo: u32, hi: u32) -> VersionSetId {
        let name = self.name(name);
        self.version_sets.push((name, lo, hi));
        VersionSetId((self.version_sets.len() - 1) as u32)
    }

    fn any(&mut self, name: &'static str) -> VersionSetId {
        self.version_set(name, 0, u32::MAX)
    }

    fn requires(&mut self, solvable: SolvableId, requirements: Vec<Requirement>) {
        self.deps
            .entry(solvable.0 as usize)
            .or_default()
            .requirements
            .extend(requirements);
    }

    fn describe(&self, solvable: SolvableId) -> (&'static str, u32) {
        let (name, version) = self.solvables[solvable.0 as usize];
        (self.names[name], version)
    }

    fn serve(&self, ev: Ev) {
        if self.raise_flag_during.as_ref() == Some(&ev) {
            self.flag.set(true);
        }
        self.log.borrow_mut().push(ev);
    }

    /// The provider requests that were started after cancellation was first signalled.
    fn requests_after_first_signal(&self) -> Vec<Ev> {
        let log = self.log.borrow();
        let first = log
            .iter()
            .position(|ev| matches!(ev, Ev::Poll(Some(_))))
            .expect("cancellation was never signalled");
        log[first..]
            .iter()
            .filter(|ev| !matches!(ev, Ev::Poll(_)))
            .cloned()
            .collect()
    }

    fn first_signalled_value(&self) -> usize {
        self.log
            .borrow()
            .iter()
            .find_map(|ev| match ev {
                Ev::Poll(Some(k)) => Some(*k),
                _ => None,
            })
            .expect("cancellation was never signalled")
    }
}

impl Interner for World {
    fn display_solvable(&self, solvable: SolvableId) -> impl Display + '_ {
        let (name, version) = self.describe(solvable);
        format!("{name}={version}")
    }
    fn display_name(&self, name: NameId) -> impl Display + '_ {
        self.names[name.0 as usize]
    }
    fn display_version_set(&self, version_set: VersionSetId) -> impl Display + '_ {
        let (_, lo, hi) = self.version_sets[version_set.0 as usize];
        format!("{lo}..={hi}")
    }
    fn display_string(&self, _string_id: StringId) -> impl Display + '_ {
        "?"
    }
    fn version_set_name(&self, version_set: VersionSetId) -> NameId {
        NameId(self.version_sets[version_set.0 as usize].0 as u32)
    }
    fn solvable_name(&self, solvable: SolvableId) -> NameId {
        NameId(self.solvables[solvable.0 as usize].0 as u32)
    }
    fn version_sets_in_union(
        &self,
        version_set_union: VersionSetUnionId,
    ) -> impl Iterator<Item = VersionSetId> {
        self.unions[version_set_union.0 as usize].iter().copied()
    }
}

impl DependencyProvider for World {
    async fn filter_candidates(
        &self,
        candidates: &[SolvableId],
        version_set: VersionSetId,
        inverse: bool,
    ) -> Vec<SolvableId> {
        let (_, lo, hi) = self.version_sets[version_set.0 as usize];
        candidates
            .iter()
            .copied()
            .filter(|s| {
                let version = self.solvables[s.0 as usize].1;
                (lo <= version && version <= hi) != inverse
            })
            .collect()
    }

    async fn get_candidates(&self, name: NameId) -> Option<Candidates> {
        self.serve(Ev::Candidates(self.names[name.0 as usize]));
        let candidates: Vec<_> = self
            .solvables
            .iter()
            .enumerate()
            .filter(|(_, (n, _))| *n == name.0 as usize)
            .map(|(idx, _)| SolvableId(idx as u32))
            .collect();
        Some(Candidates {
            candidates,
            hint_dependencies_available: if self.hint_all {
                HintDependenciesAvailable::All
            } else {
                HintDependenciesAvailable::None
            },
            ..Candidates::default()
        })
    }

    async fn sort_candidates(&self, solver: &SolverCache<Self>, solvables: &mut [SolvableId]) {
        if let Some(name) = self.reentrant_lookup {
            // `sort_candidates` returns `()`: there is no way to hand an `Err(cancel value)`
            // back to the solver, all a provider can do is to stop early.
            if solver.get_or_cache_candidates(NameId(name as u32)).await.is_err() {
                return;
            }
        }
        // Highest version first.
        solvables.sort_by_key(|s| std::cmp::Reverse(self.solvables[s.0 as usize].1));
    }

    async fn get_dependencies(&self, solvable: SolvableId) -> Dependencies {
        let (name, version) = self.describe(solvable);
        self.serve(Ev::Dependencies(name, version));
        Dependencies::Known(
            self.deps
                .get(&(solvable.0 as usize))
                .cloned()
                .unwrap_or_default(),
        )
    }

    fn should_cancel_with_value(&self) -> Option<Box<dyn Any>> {
        let k = self.polls.get();
        self.polls.set(k + 1);
        let fire = self.flag.get() || self.fire_at_polls.contains(&k);
        self.log.borrow_mut().push(Ev::Poll(fire.then_some(k)));
        if fire { Some(Box::new(k)) } else { None }
    }
}

/// What `solve` answered, in a comparable form.
#[derive(Debug, PartialEq, Eq)]
enum Outcome {
    Solution(Vec<(&'static str, u32)>),
    Unsolvable,
    Cancelled(usize),
}

fn run(
    world: World,
    requirements: Vec<Requirement>,
    soft: Vec<SolvableId>,
) -> (Outcome, Solver<World>) {
    let mut solver = Solver::new(world);
    let problem = Problem::new()
        .requirements(requirements)
        .soft_requirements(soft);
    let outcome = match solver.solve(problem) {
        Ok(solution) => {
            let mut solution: Vec<_> = solution
                .into_iter()
                .map(|s| solver.provider().describe(s))
                .collect();
            solution.sort();
            Outcome::Solution(solution)
        }
        Err(UnsolvableOrCancelled::Unsolvable(_)) => Outcome::Unsolvable,
        Err(UnsolvableOrCancelled::Cancelled(value)) => {
            Outcome::Cancelled(*value.downcast::<usize>().expect("foreign cancel value"))
        }
    };
    (outcome, solver)
}


#[test]
fn transient_cancellation_observed_inside_sort_candidates_is_lost() {
    let build = || {
        let mut w = World::default();
        w.solvable("a", 2);
        w.solvable("a", 1);
        w.solvable("z", 1);
        let any_a = w.any("a");
        w.reentrant_lookup = Some(w.name("z"));
        (w, vec![Requirement::from(any_a)])
    };
    let (w, requirements) = build();
    let (baseline, solver) = run(w, requirements, vec![]);
    assert_eq!(baseline, Outcome::Solution(vec![("a", 2)]));
    let polls = solver.provider().polls.get();

    for k in 0..polls {
        let (mut w, requirements) = build();
        w.fire_at_polls.insert(k);
        let (outcome, solver) = run(w, requirements, vec![]);
        let w = solver.provider();
        assert_eq!(
            outcome,
            Outcome::Cancelled(k),
            "cancellation signalled at poll {k} was lost; log: {:?}",
            w.log.borrow()
        );
        assert_eq!(w.requests_after_first_signal(), vec![]);
    }
}
