// PRISTINE FINDING for property C14: copy to tests/demo.rs and run
// `cargo test --offline --features serde --test demo` on UNPATCHED HEAD:
// `dependency_free_soft_requirement_is_dropped_when_it_reveals_an_exclusion` fails
// (see the comment on that test, near the end of this file, for the explanation).
// Self-contained demo for property C14 (soft requirements are best-effort and
// never harm the hard problem). Only the public API of resolvo and the
// dev-dependencies of the crate are used.
#![allow(dead_code, unused_imports)]

use std::{
    cell::RefCell,
    collections::{BTreeMap, BTreeSet},
    fmt::Display,
};

use resolvo::{
    Candidates, Dependencies, DependencyProvider, HintDependenciesAvailable, Interner,
    KnownDependencies, NameId, Problem, Requirement, SolvableId, Solver, SolverCache, StringId,
    UnsolvableOrCancelled, VersionSetId, VersionSetUnionId, utils::Pool,
};
use version_ranges::Ranges;

/// A dependency or constraint: a package name and a half open version range.
#[derive(Clone, Debug)]
struct Spec {
    name: String,
    range: Ranges<u32>,
}

/// Parses `"name"`, `"name 2"` (exactly 2) or `"name 1..4"`.
fn spec(s: &str) -> Spec {
    let mut parts = s.split(' ');
    let name = parts.next().unwrap().to_string();
    let range = match parts.next() {
        None => Ranges::full(),
        Some(r) => match r.split_once("..") {
            Some((a, b)) => Ranges::between(a.parse::<u32>().unwrap(), b.parse::<u32>().unwrap()),
            None => {
                let v: u32 = r.parse().unwrap();
                Ranges::between(v, v + 1)
            }
        },
    };
    Spec { name, range }
}

#[derive(Clone, Debug, Default)]
struct Pkg {
    requires: Vec<Spec>,
    constrains: Vec<Spec>,
    unknown: bool,
}

/// A small in-memory package repository.
#[derive(Default)]
struct Repo {
    pool: Pool<Ranges<u32>>,
    packages: BTreeMap<String, BTreeMap<u32, Pkg>>,
    excluded: BTreeSet<(String, u32)>,
    locked: BTreeMap<String, u32>,
    /// Tell the solver that the dependencies of all candidates are cheap to get.
    hint_all: bool,
    solvables: RefCell<BTreeMap<(String, u32), SolvableId>>,
}

impl Repo {
    fn add(&mut self, name: &str, version: u32, requires: &[&str], constrains: &[&str]) {
        self.pool.intern_package_name(name);
        self.packages.entry(name.to_string()).or_default().insert(
            version,
            Pkg {
                requires: requires.iter().map(|s| spec(s)).collect(),
                constrains: constrains.iter().map(|s| spec(s)).collect(),
                unknown: false,
            },
        );
    }

    fn version_set(&self, s: &Spec) -> VersionSetId {
        let name = self.pool.intern_package_name(s.name.clone());
        self.pool.intern_version_set(name, s.range.clone())
    }

    fn requirements(&self, specs: &[&str]) -> Vec<Requirement> {
        specs
            .iter()
            .map(|s| self.version_set(&spec(s)).into())
            .collect()
    }

    fn constraints(&self, specs: &[&str]) -> Vec<VersionSetId> {
        specs.iter().map(|s| self.version_set(&spec(s))).collect()
    }

    fn solvable(&self, name: &str, version: u32) -> SolvableId {
        let name_id = self.pool.intern_package_name(name.to_string());
        *self
            .solvables
            .borrow_mut()
            .entry((name.to_string(), version))
            .or_insert_with(|| self.pool.intern_solvable(name_id, version))
    }

    fn name_version(&self, s: SolvableId) -> (String, u32) {
        let solvable = self.pool.resolve_solvable(s);
        (
            self.pool.resolve_package_name(solvable.name).clone(),
            solvable.record,
        )
    }

    fn pkg(&self, s: SolvableId) -> Pkg {
        let (name, version) = self.name_version(s);
        self.packages
            .get(&name)
            .and_then(|versions| versions.get(&version))
            .cloned()
            .unwrap_or_default()
    }
}

impl Interner for Repo {
    fn display_solvable(&self, solvable: SolvableId) -> impl Display + '_ {
        let (name, version) = self.name_version(solvable);
        format!("{name}={version}")
    }
    fn display_name(&self, name: NameId) -> impl Display + '_ {
        self.pool.resolve_package_name(name).clone()
    }
    fn display_version_set(&self, version_set: VersionSetId) -> impl Display + '_ {
        self.pool.resolve_version_set(version_set).clone()
    }
    fn display_string(&self, string_id: StringId) -> impl Display + '_ {
        self.pool.resolve_string(string_id).to_owned()
    }
    fn version_set_name(&self, version_set: VersionSetId) -> NameId {
        self.pool.resolve_version_set_package_name(version_set)
    }
    fn solvable_name(&self, solvable: SolvableId) -> NameId {
        self.pool.resolve_solvable(solvable).name
    }
    fn version_sets_in_union(
        &self,
        version_set_union: VersionSetUnionId,
    ) -> impl Iterator<Item = VersionSetId> {
        self.pool.resolve_version_set_union(version_set_union)
    }
}

impl DependencyProvider for Repo {
    async fn filter_candidates(
        &self,
        candidates: &[SolvableId],
        version_set: VersionSetId,
        inverse: bool,
    ) -> Vec<SolvableId> {
        let range = self.pool.resolve_version_set(version_set);
        candidates
            .iter()
            .copied()
            .filter(|s| range.contains(&self.pool.resolve_solvable(*s).record) != inverse)
            .collect()
    }

    async fn get_candidates(&self, name: NameId) -> Option<Candidates> {
        let package_name = self.pool.resolve_package_name(name).clone();
        let versions = self.packages.get(&package_name)?;
        let mut candidates = Candidates::default();
        for &version in versions.keys() {
            let solvable = self.solvable(&package_name, version);
            candidates.candidates.push(solvable);
            if self.locked.get(&package_name) == Some(&version) {
                candidates.locked = Some(solvable);
            }
            if self.excluded.contains(&(package_name.clone(), version)) {
                candidates
                    .excluded
                    .push((solvable, self.pool.intern_string("excluded")));
            }
        }
        if self.hint_all {
            candidates.hint_dependencies_available = HintDependenciesAvailable::All;
        }
        Some(candidates)
    }

    /// Highest version first.
    async fn sort_candidates(&self, _solver: &SolverCache<Self>, solvables: &mut [SolvableId]) {
        solvables.sort_by_key(|&s| std::cmp::Reverse(self.pool.resolve_solvable(s).record));
    }

    async fn get_dependencies(&self, solvable: SolvableId) -> Dependencies {
        let pkg = self.pkg(solvable);
        if pkg.unknown {
            return Dependencies::Unknown(self.pool.intern_string("unknown dependencies"));
        }
        Dependencies::Known(KnownDependencies {
            requirements: pkg
                .requires
                .iter()
                .map(|s| self.version_set(s).into())
                .collect(),
            constrains: pkg.constrains.iter().map(|s| self.version_set(s)).collect(),
        })
    }
}

/// Renders a solution as a sorted list of `name=version`.
fn render(repo: &Repo, solution: &[SolvableId]) -> Vec<String> {
    let mut v: Vec<String> = solution
        .iter()
        .map(|&s| repo.display_solvable(s).to_string())
        .collect();
    v.sort();
    v
}

/// Checks that `solution` is a valid installation: one solvable per package,
/// every requirement of every installed solvable (and every root requirement)
/// has an installed candidate, and no installed solvable violates a constraint
/// of another installed solvable or of the root.
fn assert_valid(repo: &Repo, root_requires: &[&str], root_constrains: &[&str], solution: &[SolvableId]) {
    let installed: BTreeMap<String, u32> = {
        let mut map = BTreeMap::new();
        for &s in solution {
            let (name, version) = repo.name_version(s);
            assert!(
                map.insert(name.clone(), version).is_none(),
                "two solvables of package `{name}` are installed: {:?}",
                render(repo, solution)
            );
        }
        map
    };
    let satisfied = |s: &Spec| installed.get(&s.name).is_some_and(|v| s.range.contains(v));
    let allowed = |s: &Spec| installed.get(&s.name).is_none_or(|v| s.range.contains(v));
    for r in root_requires {
        assert!(satisfied(&spec(r)), "root requirement `{r}` is not satisfied");
    }
    for c in root_constrains {
        assert!(allowed(&spec(c)), "root constraint `{c}` is violated");
    }
    for &s in solution {
        let pkg = repo.pkg(s);
        let me = repo.display_solvable(s).to_string();
        assert!(!pkg.unknown, "{me} has unknown dependencies but is installed");
        for r in &pkg.requires {
            assert!(
                satisfied(r),
                "requirement `{} {}` of {me} is not satisfied in {:?}",
                r.name,
                r.range,
                render(repo, solution)
            );
        }
        for c in &pkg.constrains {
            assert!(
                allowed(c),
                "constraint `{} {}` of {me} is violated in {:?}",
                c.name,
                c.range,
                render(repo, solution)
            );
        }
    }
}

/// PRISTINE FINDING (unpatched HEAD fails this test).
///
/// d=2 is excluded by the provider, but the package `d` is never requested by
/// a version set before d=2 is requested directly as a soft requirement, so
/// the solver accepts it (documented behaviour: a directly requested solvable
/// is only subject to the package-level clauses of its package once the
/// package is requested through a version set; commit af82e89 keeps that
/// exemption for the soft requirements that follow).
///
/// The next soft solvable c=3 has no requirements at all; it only constrains
/// `d 1..3`, which the installed d=2 satisfies. Fetching the candidates of `d`
/// for that constraint reveals the exclusion of d=2 during the *first*
/// encoding pass of c=3, and run_sat treats any conflicting clause of that
/// pass as proof that c=3 itself is not installable
/// (src/solver/mod.rs, `if let Some(clause_id) = conflicting_clauses.into_iter().next()`
/// right after the first `Encoder::encode([root_solvable])`).
/// c=3 is dropped although {d=2, c=3} violates nothing that {d=2} does not
/// already violate. If the same constraint is carried by a *dependency* of the
/// soft solvable (second test) the exclusion is found in a later encoding
/// pass, the run is restarted, decide_assertions skips the assertion for the
/// earlier decision and the soft solvable is accepted - so the outcome depends
/// on where in the closure the package is first mentioned.
#[test]
fn dependency_free_soft_requirement_is_dropped_when_it_reveals_an_exclusion() {
    let mut repo = Repo::default();
    repo.add("d", 2, &[], &[]);
    repo.add("c", 3, &[], &["d 1..3"]);
    repo.excluded.insert(("d".to_string(), 2));

    let soft = vec![repo.solvable("d", 2), repo.solvable("c", 3)];
    let mut solver = Solver::new(repo);
    let solution = solver
        .solve(Problem::new().soft_requirements(soft))
        .unwrap_or_else(|_| panic!("unexpected error"));
    let repo = solver.provider();
    // pristine HEAD returns ["d=2"] only
    assert_eq!(render(repo, &solution), ["c=3", "d=2"]);
}

/// Same situation, but the constraint sits one level deeper: accepted on HEAD.
#[test]
fn same_constraint_on_a_dependency_is_accepted() {
    let mut repo = Repo::default();
    repo.add("d", 2, &[], &[]);
    repo.add("c", 3, &["x"], &[]);
    repo.add("x", 1, &[], &["d 1..3"]);
    repo.excluded.insert(("d".to_string(), 2));

    let soft = vec![repo.solvable("d", 2), repo.solvable("c", 3)];
    let mut solver = Solver::new(repo);
    let solution = solver
        .solve(Problem::new().soft_requirements(soft))
        .unwrap_or_else(|_| panic!("unexpected error"));
    let repo = solver.provider();
    assert_eq!(render(repo, &solution), ["c=3", "d=2", "x=1"]);
}
