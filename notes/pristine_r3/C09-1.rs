//! PRISTINE FINDING (borderline) for C09 - fails on the UNPATCHED code.
//!
//! Second sentence of the property: "On conflict-free problems dependencies are requested for
//! exactly the solvables of the solution and candidates for exactly the names their dependencies
//! and the root mention", quantified over successive solves on one solver.
//!
//! History: solve #1 (root: `a 2..3`) is cancelled while the provider answers
//! `get_dependencies(a=2)`. The answer is cached, but the solve stops before the names that a=2
//! mentions (`b`) are looked up. Solve #2 on the same solver (root: `a`, with a=1 favored) is
//! conflict-free and its solution is {a=1}, which depends on nothing. Nevertheless solve #2 calls
//! `get_candidates(b)`: `SolverCache::are_dependencies_available_for(a=2)` is true because the
//! dependencies of a=2 are already in the cache, so the encoder eagerly encodes the (never
//! selected, lower-ranked) candidate a=2 and looks up the package it requires.
//!
//! The first sentence of the property (causality) still holds - `b` IS mentioned by dependencies
//! that the solver obtained earlier - and "already requested => cheaply available" is documented
//! on `are_dependencies_available_for`, so this may well be considered intended. It is recorded
//! because a literal reading of the "exactly" clause is violated for solve #2: a name that neither
//! the root nor any solvable of the solution mentions is fetched. Without the cancellation the
//! lookup of `b` would already have happened in solve #1 and nothing would be observable.
//!
//! The provider answers every request synchronously (the default `NowOrNeverRuntime` is used), so
//! the sequence of provider calls is fully deterministic.

#![allow(dead_code, unused_imports)]

use std::{
    any::Any,
    cell::{Cell, RefCell},
    collections::HashMap,
    fmt::Display,
};

use resolvo::{
    Candidates, Dependencies, DependencyProvider, Interner, KnownDependencies, NameId, Problem,
    Requirement, SolvableId, Solver, SolverCache, StringId, UnsolvableOrCancelled, VersionSetId,
    VersionSetUnionId,
    utils::{Pool, VersionSet},
};

/// A half open range of versions `[lo, hi)`.
#[derive(Clone, Debug, PartialEq, Eq, Hash)]
struct Range(u32, u32);

impl VersionSet for Range {
    type V = u32;
}

/// A call that the solver made to the provider.
#[derive(Clone, Debug, PartialEq, Eq, Hash, PartialOrd, Ord)]
enum Call {
    Candidates(String),
    Dependencies(String, u32),
}

#[derive(Default, Clone)]
struct Package {
    requirements: Vec<Vec<(String, Range)>>,
    constrains: Vec<(String, Range)>,
}

#[derive(Default)]
struct Provider {
    pool: Pool<Range>,
    /// (name, version) -> package, in insertion order
    packages: Vec<(NameId, u32, SolvableId, Package)>,
    favored: HashMap<NameId, SolvableId>,
    locked: HashMap<NameId, SolvableId>,

    /// Everything the solver asked for, in order.
    log: RefCell<Vec<Call>>,

    /// Raise the cancellation flag while answering this call.
    cancel_during: RefCell<Option<Call>>,
    cancelled: Cell<bool>,
}

fn spec(s: &str) -> (String, Range) {
    let mut parts = s.split(' ');
    let name = parts.next().unwrap().to_string();
    let range = match parts.next() {
        None => Range(0, u32::MAX),
        Some(r) => match r.split_once("..") {
            Some((lo, hi)) => Range(lo.parse().unwrap(), hi.parse().unwrap()),
            None => {
                let v: u32 = r.parse().unwrap();
                Range(v, v + 1)
            }
        },
    };
    (name, range)
}

impl Provider {
    /// Adds a package. Solvable ids are handed out in the order in which packages are added.
    fn add(&mut self, name: &str, version: u32, requirements: &[&str], constrains: &[&str]) -> SolvableId {
        let name_id = self.pool.intern_package_name(name.to_string());
        let solvable = self.pool.intern_solvable(name_id, version);
        let package = Package {
            requirements: requirements
                .iter()
                .map(|r| r.split('|').map(str::trim).map(spec).collect())
                .collect(),
            constrains: constrains.iter().map(|c| spec(c)).collect(),
        };
        self.packages.push((name_id, version, solvable, package));
        solvable
    }

    fn version_set(&self, (name, range): &(String, Range)) -> VersionSetId {
        let name_id = self.pool.intern_package_name(name.clone());
        self.pool.intern_version_set(name_id, range.clone())
    }

    fn requirement(&self, alternatives: &[(String, Range)]) -> Requirement {
        let mut sets = alternatives.iter().map(|s| self.version_set(s));
        let first = sets.next().unwrap();
        if alternatives.len() == 1 {
            first.into()
        } else {
            self.pool.intern_version_set_union(first, sets).into()
        }
    }

    fn root_requirements(&self, specs: &[&str]) -> Vec<Requirement> {
        specs
            .iter()
            .map(|r| self.requirement(&r.split('|').map(str::trim).map(spec).collect::<Vec<_>>()))
            .collect()
    }

    fn describe(&self, solvable: SolvableId) -> (String, u32) {
        let s = self.pool.resolve_solvable(solvable);
        (self.pool.resolve_package_name(s.name).clone(), s.record)
    }

    fn record(&self, call: Call) {
        if self.cancel_during.borrow().as_ref() == Some(&call) {
            self.cancelled.set(true);
        }
        self.log.borrow_mut().push(call);
    }

    fn take_log(&self) -> Vec<Call> {
        std::mem::take(&mut *self.log.borrow_mut())
    }
}

impl Interner for Provider {
    fn display_solvable(&self, solvable: SolvableId) -> impl Display + '_ {
        let (name, version) = self.describe(solvable);
        format!("{name}={version}")
    }
    fn display_name(&self, name: NameId) -> impl Display + '_ {
        self.pool.resolve_package_name(name).clone()
    }
    fn display_version_set(&self, version_set: VersionSetId) -> impl Display + '_ {
        let Range(lo, hi) = self.pool.resolve_version_set(version_set);
        format!("{lo}..{hi}")
    }
    fn display_string(&self, string_id: StringId) -> impl Display + '_ {
        self.pool.resolve_string(string_id).to_owned()
    }
    fn version_set_name(&self, version_set: VersionSetId) -> NameId {
        self.pool.resolve_version_set_package_name(version_set)
    }
    fn solvable_name(&self, solvable: SolvableId) -> NameId {
        self.pool.resolve_solvable(solvable).name
    }
    fn version_sets_in_union(
        &self,
        version_set_union: VersionSetUnionId,
    ) -> impl Iterator<Item = VersionSetId> {
        self.pool.resolve_version_set_union(version_set_union)
    }
}

impl DependencyProvider for Provider {
    async fn filter_candidates(
        &self,
        candidates: &[SolvableId],
        version_set: VersionSetId,
        inverse: bool,
    ) -> Vec<SolvableId> {
        let Range(lo, hi) = self.pool.resolve_version_set(version_set).clone();
        candidates
            .iter()
            .copied()
            .filter(|&s| {
                let v = self.pool.resolve_solvable(s).record;
                (lo <= v && v < hi) != inverse
            })
            .collect()
    }

    async fn get_candidates(&self, name: NameId) -> Option<Candidates> {
        self.record(Call::Candidates(self.pool.resolve_package_name(name).clone()));
        let candidates: Vec<_> = self
            .packages
            .iter()
            .filter(|(n, ..)| *n == name)
            .map(|(_, _, s, _)| *s)
            .collect();
        if candidates.is_empty() {
            return None;
        }
        Some(Candidates {
            candidates,
            favored: self.favored.get(&name).copied(),
            locked: self.locked.get(&name).copied(),
            ..Candidates::default()
        })
    }

    async fn sort_candidates(&self, _solver: &SolverCache<Self>, solvables: &mut [SolvableId]) {
        // Highest version first
        solvables.sort_by_key(|&s| std::cmp::Reverse(self.pool.resolve_solvable(s).record));
    }

    async fn get_dependencies(&self, solvable: SolvableId) -> Dependencies {
        let (name, version) = self.describe(solvable);
        self.record(Call::Dependencies(name, version));
        let package = &self
            .packages
            .iter()
            .find(|(_, _, s, _)| *s == solvable)
            .expect("unknown solvable")
            .3;
        Dependencies::Known(KnownDependencies {
            requirements: package
                .requirements
                .iter()
                .map(|alternatives| self.requirement(alternatives))
                .collect(),
            constrains: package.constrains.iter().map(|c| self.version_set(c)).collect(),
        })
    }

    fn should_cancel_with_value(&self) -> Option<Box<dyn Any>> {
        self.cancelled
            .get()
            .then(|| Box::new("cancelled") as Box<dyn Any>)
    }
}

fn solution(provider: &Provider, solvables: &[SolvableId]) -> Vec<(String, u32)> {
    let mut result: Vec<_> = solvables.iter().map(|&s| provider.describe(s)).collect();
    result.sort();
    result
}

fn duplicates(calls: &[Call]) -> Vec<Call> {
    let mut seen = std::collections::HashSet::new();
    calls.iter().filter(|c| !seen.insert((*c).clone())).cloned().collect()
}

#[test]
fn eager_lookup_after_a_cancelled_solve() {
    let mut provider = Provider::default();
    provider.add("a", 2, &["b"], &[]);
    let a1 = provider.add("a", 1, &[], &[]);
    provider.add("b", 1, &["c"], &[]);
    provider.add("c", 1, &[], &[]);
    let a = provider.pool.intern_package_name("a".to_string());
    provider.favored.insert(a, a1);

    // Solve #1: only a=2 matches; the user cancels while its dependencies are being fetched.
    *provider.cancel_during.borrow_mut() = Some(Call::Dependencies("a".to_string(), 2));
    let first_problem = provider.root_requirements(&["a 2..3"]);
    let second_problem = provider.root_requirements(&["a"]);
    let mut solver = Solver::new(provider);
    let first = solver.solve(Problem::new().requirements(first_problem));
    assert!(matches!(first, Err(UnsolvableOrCancelled::Cancelled(_))));
    assert_eq!(
        solver.provider().take_log(),
        vec![
            Call::Candidates("a".to_string()),
            Call::Dependencies("a".to_string(), 2)
        ]
    );

    // Solve #2: any version of `a`; a=1 is favored and has no dependencies.
    *solver.provider().cancel_during.borrow_mut() = None;
    solver.provider().cancelled.set(false);
    let solved = solver
        .solve(Problem::new().requirements(second_problem))
        .unwrap();
    assert_eq!(solution(solver.provider(), &solved), vec![("a".to_string(), 1)]);

    // The candidates of `a` are cached, so the only request that the solution needs is the
    // dependencies of a=1. Observed on the unpatched code: [Candidates("b"), Dependencies("a", 1)]
    assert_eq!(
        solver.provider().take_log(),
        vec![Call::Dependencies("a".to_string(), 1)],
        "solve #2 requested metadata that neither the root nor its solution mentions"
    );
}
