// PRISTINE FINDING (unpatched HEAD) for property C13 -- borderline, please judge.
//
// Which soft requirements a solve honours depends on the HISTORY of the solver.
//
//   p=1 is excluded by the provider, p=2 is fine; c=1 requires p; x=1 requires c.
//   Problem: no hard requirements, soft requirements [p=1, x=1].
//
//   fresh solver:                                    Ok [c=1, p=1, x=1]
//   same solver after an unrelated solve of [c]:     Ok [p=1]            (x=1 silently dropped)
//   fresh solver, provider hints "All deps available": Ok [p=1]          (same mechanism)
//
// Mechanism: `SolverCache::are_dependencies_available_for` reports the dependencies of
// c=1 as cheap because the earlier solve fetched them, so the first encoding pass of the
// soft requirement x=1 eagerly encodes c=1 as well, reaches package p, and adds the
// exclusion clause for p=1. p=1 is already selected (a directly requested solvable is
// exempt from the exclusions of its package), so `add_exclusion_clause` reports the clause
// as conflicting, and `run_sat` treats ANY conflicting clause of the first encoding pass
// of a soft requirement as proof that the soft requirement itself is unsatisfiable
// (src/solver/mod.rs, "if let Some(clause_id) = conflicting_clauses.into_iter().next()"
// -> run_sat_process_unsolvable). A fresh solver only meets that clause in a later pass,
// restarts, and then skips the assertion thanks to the `run_starting_level` exemption in
// `decide_assertions`.
//
// The verdict (Ok) is the same and both solutions are internally consistent, so this does
// not contradict the letter of "gives the verdict a fresh solver would give"; but the
// answer of a reused solver is observably not the answer of a fresh solver.
//
// Run: cp pristine_findings/1.rs tests/demo.rs && cargo test --offline --features serde --test demo
// (fails on the unpatched code).

#![allow(dead_code)]

use std::{
    any::Any,
    cell::{Cell, RefCell},
    collections::{HashMap, HashSet},
    fmt::Display,
};

use resolvo::{
    HintDependenciesAvailable, Candidates, Dependencies, DependencyProvider, Interner, KnownDependencies, NameId, Problem,
    Requirement, SolvableId, Solver, SolverCache, StringId, UnsolvableOrCancelled, VersionSetId,
    VersionSetUnionId,
};

/// A tiny hand-written package database: a package is a name plus an integer
/// version, a version set is a half open version range `lo..hi` of one package.
#[derive(Default)]
struct Db {
    names: Vec<String>,
    solvables: Vec<(NameId, u32)>,
    version_sets: Vec<(NameId, u32, u32)>,
    requirements: HashMap<SolvableId, Vec<VersionSetId>>,
    constrains: HashMap<SolvableId, Vec<VersionSetId>>,
    unknown: HashSet<SolvableId>,
    excluded: HashSet<SolvableId>,
    /// Raised/cleared by the test to request cancellation.
    cancel: Cell<bool>,
    hint_all: bool,
    /// Request cancellation from within the next `get_dependencies` call.
    cancel_in_next_dependencies_call: Cell<bool>,
    /// Log of the metadata requests that reached the provider.
    candidates_calls: RefCell<Vec<NameId>>,
    dependencies_calls: RefCell<Vec<SolvableId>>,
}

impl Db {
    fn name(&mut self, name: &str) -> NameId {
        if let Some(idx) = self.names.iter().position(|n| n == name) {
            return NameId(idx as u32);
        }
        self.names.push(name.to_string());
        NameId(self.names.len() as u32 - 1)
    }

    /// Adds the package `name`=`version` with requirements on the given version sets.
    fn package(&mut self, name: &str, version: u32, requires: &[VersionSetId]) -> SolvableId {
        let name = self.name(name);
        self.solvables.push((name, version));
        let id = SolvableId(self.solvables.len() as u32 - 1);
        self.requirements.insert(id, requires.to_vec());
        id
    }

    /// Interns the version set `name lo..hi`.
    fn spec(&mut self, name: &str, lo: u32, hi: u32) -> VersionSetId {
        let name = self.name(name);
        if let Some(idx) = self.version_sets.iter().position(|vs| *vs == (name, lo, hi)) {
            return VersionSetId(idx as u32);
        }
        self.version_sets.push((name, lo, hi));
        VersionSetId(self.version_sets.len() as u32 - 1)
    }

    /// Interns the version set that matches every version of `name`.
    fn any(&mut self, name: &str) -> VersionSetId {
        self.spec(name, 0, u32::MAX)
    }

    fn show(&self, solvables: &[SolvableId]) -> Vec<String> {
        let mut result: Vec<_> = solvables
            .iter()
            .map(|&s| self.display_solvable(s).to_string())
            .collect();
        result.sort();
        result
    }
}

impl Interner for Db {
    fn display_solvable(&self, solvable: SolvableId) -> impl Display + '_ {
        let (name, version) = self.solvables[solvable.0 as usize];
        format!("{}={}", self.names[name.0 as usize], version)
    }
    fn display_name(&self, name: NameId) -> impl Display + '_ {
        self.names[name.0 as usize].clone()
    }
    fn display_version_set(&self, version_set: VersionSetId) -> impl Display + '_ {
        let (_, lo, hi) = self.version_sets[version_set.0 as usize];
        format!("{lo}..{hi}")
    }
    fn display_string(&self, _string_id: StringId) -> impl Display + '_ {
        "reason"
    }
    fn version_set_name(&self, version_set: VersionSetId) -> NameId {
        self.version_sets[version_set.0 as usize].0
    }
    fn solvable_name(&self, solvable: SolvableId) -> NameId {
        self.solvables[solvable.0 as usize].0
    }
    fn version_sets_in_union(
        &self,
        _version_set_union: VersionSetUnionId,
    ) -> impl Iterator<Item = VersionSetId> {
        std::iter::empty()
    }
}

impl DependencyProvider for Db {
    async fn filter_candidates(
        &self,
        candidates: &[SolvableId],
        version_set: VersionSetId,
        inverse: bool,
    ) -> Vec<SolvableId> {
        let (_, lo, hi) = self.version_sets[version_set.0 as usize];
        candidates
            .iter()
            .copied()
            .filter(|s| {
                let version = self.solvables[s.0 as usize].1;
                (lo <= version && version < hi) != inverse
            })
            .collect()
    }

    async fn get_candidates(&self, name: NameId) -> Option<Candidates> {
        self.candidates_calls.borrow_mut().push(name);
        let candidates: Vec<_> = (0..self.solvables.len() as u32)
            .map(SolvableId)
            .filter(|s| self.solvables[s.0 as usize].0 == name)
            .collect();
        if candidates.is_empty() {
            return None;
        }
        Some(Candidates {
            excluded: candidates
                .iter()
                .filter(|s| self.excluded.contains(s))
                .map(|&s| (s, StringId(0)))
                .collect(),
            candidates,
            hint_dependencies_available: if self.hint_all { HintDependenciesAvailable::All } else { HintDependenciesAvailable::None },
            ..Candidates::default()
        })
    }

    async fn sort_candidates(&self, _solver: &SolverCache<Self>, solvables: &mut [SolvableId]) {
        // Highest version first.
        solvables.sort_by_key(|s| std::cmp::Reverse(self.solvables[s.0 as usize].1));
    }

    async fn get_dependencies(&self, solvable: SolvableId) -> Dependencies {
        self.dependencies_calls.borrow_mut().push(solvable);
        if self.cancel_in_next_dependencies_call.replace(false) {
            self.cancel.set(true);
        }
        if self.unknown.contains(&solvable) {
            return Dependencies::Unknown(StringId(0));
        }
        Dependencies::Known(KnownDependencies {
            requirements: self.requirements[&solvable]
                .iter()
                .map(|&vs| Requirement::from(vs))
                .collect(),
            constrains: self.constrains.get(&solvable).cloned().unwrap_or_default(),
        })
    }

    fn should_cancel_with_value(&self) -> Option<Box<dyn Any>> {
        self.cancel.get().then(|| Box::new("cancelled") as Box<dyn Any>)
    }
}

/// Solves `requirements` (plus soft requirements) and renders the outcome.
fn solve(
    solver: &mut Solver<Db>,
    requirements: &[VersionSetId],
    soft: &[SolvableId],
) -> Result<Vec<String>, String> {
    let problem = Problem::new()
        .requirements(requirements.iter().map(|&vs| vs.into()).collect())
        .soft_requirements(soft.to_vec());
    match solver.solve(problem) {
        Ok(solution) => Ok(solver.provider().show(&solution)),
        Err(UnsolvableOrCancelled::Unsolvable(_)) => Err("unsolvable".to_string()),
        Err(UnsolvableOrCancelled::Cancelled(_)) => Err("cancelled".to_string()),
    }
}

fn database() -> (Db, VersionSetId, SolvableId, SolvableId) {
    let mut db = Db::default();
    let p1 = db.package("p", 1, &[]);
    db.package("p", 2, &[]);
    db.excluded.insert(p1);
    let any_p = db.any("p");
    db.package("c", 1, &[any_p]);
    let any_c = db.any("c");
    let x1 = db.package("x", 1, &[any_c]);
    (db, any_c, p1, x1)
}

#[test]
fn probe() {
    let (db, _any_c, p1, x1) = database();
    let mut fresh = Solver::new(db);
    let expected = solve(&mut fresh, &[], &[p1, x1]);
    println!("fresh: {expected:?}");

    let (mut db, _any_c, p1, x1) = database();
    db.hint_all = true;
    println!("fresh hinted: {:?}", solve(&mut Solver::new(db), &[], &[p1, x1]));
    let (db, any_c, p1, x1) = database();
    let mut reused = Solver::new(db);
    println!("warm-up: {:?}", solve(&mut reused, &[any_c], &[]));
    let got = solve(&mut reused, &[], &[p1, x1]);
    println!("reused: {got:?}");
    assert_eq!(got, expected);
}
