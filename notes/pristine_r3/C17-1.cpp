// PRISTINE FINDING 1 (property C17, memory safety of the C++ binding) - reproduces on the
// UNPATCHED code at HEAD.
//
// `Candidates::favored` / `Candidates::locked` are raw `const SolvableId *`. The most natural way
// for a C++ provider to produce a pointer that outlives its `get_candidates` call is to point it
// at an element of the `candidates` vector it returns in the very same struct:
//
//     result.favored = &std::as_const(result.candidates).begin()[k];
//
// The returned struct is moved into the Rust-owned out-parameter (Vector move-assignment swaps the
// buffers, so the pointer stays valid and now points into memory owned by Rust). But in
// cpp/src/lib.rs, `impl resolvo::DependencyProvider for &DependencyProvider`, `get_candidates`
// builds `resolvo::Candidates { candidates: candidates.candidates.into_iter()...collect(),
// favored: candidates.favored.as_ref().copied()..., locked: ... }`: the struct fields are
// evaluated in order, so the `candidates` Vector is consumed - and, being uniquely owned, its
// buffer is FREED by the IntoIter - before `favored` and `locked` are dereferenced. Both reads
// are use-after-free reads of 4 bytes (24 bytes into the freed block = element 0).
//
// The read happens inside the (uninstrumented) Rust static library, so AddressSanitizer does not
// see it and the stale value usually still happens to be intact; valgrind reports it:
//
//   cd /tmp/wt3/C17 && CARGO_NET_OFFLINE=true CARGO_TARGET_DIR=/tmp/wt3/C17/target \
//     RESOLVO_GENERATED_INCLUDE_DIR=/tmp/wt3/C17/target/inc cargo build --offline -p resolvo_cpp --release
//   clang++ -std=c++17 -g -I/tmp/wt3/C17/cpp/include -I/tmp/wt3/C17/target/inc \
//     pristine_findings/1.cpp /tmp/wt3/C17/target/release/libresolvo_cpp.a -lpthread -ldl -lm -o /tmp/wt3/C17/target/pf1
//   valgrind -q --error-exitcode=9 /tmp/wt3/C17/target/pf1 ; echo $?
//
//   ==..== Invalid read of size 4
//   ==..==    at resolvo::solver::cache::SolverCache<D>::get_or_cache_candidates::{{closure}}
//   ==..==  Address 0x... is 24 bytes inside a block of size 36 free'd
//   ==..==    by <alloc::vec::Vec<T> as SpecFromIter<T,I>>::from_iter
//   ==..==  Block was alloc'd at ... resolvo::Vector<SolvableId>::with_capacity (resolvo_vector.h)
//   exit code 9
//
// (The API documentation does not state a lifetime requirement for the two pointers, and a pointer
// to a provider-owned SolvableId works fine - so this is a latent trap rather than a defect in
// every use, but for this provider the binding is not memory safe. Reading `favored`/`locked`
// before consuming `candidates.candidates` in lib.rs fixes it.)
#include <utility>
#include <algorithm>
#include <cstdint>
#include <cstdio>
#include <cstdlib>
#include <iostream>
#include <sstream>
#include <string>
#include <string_view>
#include <vector>

#include <resolvo.h>
#include <resolvo_pool.h>

struct Candidate {
    resolvo::NameId name;
    uint32_t version;
    resolvo::Dependencies dependencies;
};
struct VersionSet {
    resolvo::NameId name;
    uint32_t version_start;
    uint32_t version_end;
};

struct PackageDatabase : public resolvo::DependencyProvider {
    resolvo::Pool<resolvo::NameId, resolvo::String> names;
    resolvo::Pool<resolvo::StringId, resolvo::String> strings;
    std::vector<Candidate> candidates;
    std::vector<VersionSet> version_sets;
    std::vector<std::vector<resolvo::VersionSetId>> version_set_unions;

    resolvo::VersionSetId alloc_version_set(std::string_view package, uint32_t s, uint32_t e) {
        auto name_id = names.alloc(resolvo::String(package));
        auto id = resolvo::VersionSetId{static_cast<uint32_t>(version_sets.size())};
        version_sets.push_back(VersionSet{name_id, s, e});
        return id;
    }
    resolvo::Requirement alloc_requirement(std::string_view package, uint32_t s, uint32_t e) {
        return resolvo::requirement_single(alloc_version_set(package, s, e));
    }
    resolvo::Requirement alloc_requirement_union(std::vector<resolvo::VersionSetId> sets) {
        auto id = resolvo::VersionSetUnionId{static_cast<uint32_t>(version_set_unions.size())};
        version_set_unions.push_back(std::move(sets));
        return resolvo::requirement_union(id);
    }
    resolvo::SolvableId alloc_candidate(std::string_view name, uint32_t version,
                                        resolvo::Dependencies dependencies) {
        auto name_id = names.alloc(resolvo::String(name));
        auto id = resolvo::SolvableId{static_cast<uint32_t>(candidates.size())};
        candidates.push_back(Candidate{name_id, version, dependencies});
        return id;
    }

    resolvo::String display_name(resolvo::NameId name) override { return names[name]; }
    resolvo::String display_solvable(resolvo::SolvableId solvable) override {
        const auto& c = candidates[solvable.id];
        std::stringstream ss;
        ss << names[c.name] << "=" << c.version;
        return resolvo::String(ss.str());
    }
    resolvo::String display_merged_solvables(resolvo::Slice<resolvo::SolvableId> solvables) override {
        if (solvables.empty()) return resolvo::String();
        std::stringstream ss;
        ss << names[candidates[solvables[0].id].name] << " ";
        bool first = true;
        for (const auto& s : solvables) {
            if (!first) ss << " | ";
            first = false;
            ss << candidates[s.id].version;
        }
        return resolvo::String(ss.str());
    }
    resolvo::String display_version_set(resolvo::VersionSetId version_set) override {
        const auto& req = version_sets[version_set.id];
        std::stringstream ss;
        ss << req.version_start << ".." << req.version_end;
        return resolvo::String(ss.str());
    }
    resolvo::String display_string(resolvo::StringId string_id) override { return strings[string_id]; }
    resolvo::NameId version_set_name(resolvo::VersionSetId id) override { return version_sets[id.id].name; }
    resolvo::NameId solvable_name(resolvo::SolvableId id) override { return candidates[id.id].name; }
    resolvo::Slice<resolvo::VersionSetId> version_sets_in_union(resolvo::VersionSetUnionId id) override {
        const auto& v = version_set_unions[id.id];
        return {v.data(), v.size()};
    }
    resolvo::Candidates get_candidates(resolvo::NameId package) override {
        resolvo::Candidates result;
        for (uint32_t i = 0; i < candidates.size(); ++i) {
            if (candidates[i].name != package) continue;
            result.candidates.push_back(resolvo::SolvableId{i});
            result.hint_dependencies_available.push_back(resolvo::SolvableId{i});
        }
        result.favored = nullptr;
        result.locked = nullptr;
        return result;
    }
    void sort_candidates(resolvo::Slice<resolvo::SolvableId> solvables) override {
        std::sort(solvables.begin(), solvables.end(), [&](resolvo::SolvableId a, resolvo::SolvableId b) {
            return candidates[a.id].version > candidates[b.id].version;
        });
    }
    resolvo::Vector<resolvo::SolvableId> filter_candidates(resolvo::Slice<resolvo::SolvableId> solvables,
                                                           resolvo::VersionSetId version_set_id,
                                                           bool inverse) override {
        resolvo::Vector<resolvo::SolvableId> result;
        const auto& vs = version_sets[version_set_id.id];
        for (auto s : solvables) {
            const auto& c = candidates[s.id];
            bool matches = c.version >= vs.version_start && c.version < vs.version_end;
            if (matches != inverse) result.push_back(s);
        }
        return result;
    }
    resolvo::Dependencies get_dependencies(resolvo::SolvableId solvable) override {
        return candidates[solvable.id].dependencies;
    }
};

struct FavoringDb : PackageDatabase {
    bool lock = false;
    resolvo::Candidates get_candidates(resolvo::NameId package) override {
        resolvo::Candidates result = PackageDatabase::get_candidates(package);
        if (result.candidates.size() > 1) {
            // favour (or lock) the first listed candidate: point into the returned vector itself
            const resolvo::SolvableId *first = std::as_const(result.candidates).begin();
            if (lock)
                result.locked = first;
            else
                result.favored = first;
        }
        return result;
    }
};

int main() {
    for (int pass = 0; pass < 2; ++pass) {
        FavoringDb db;
        db.lock = pass == 1;
        db.alloc_candidate("a", 1, {});
        db.alloc_candidate("a", 2, {});
        db.alloc_candidate("a", 3, {});
        resolvo::Vector<resolvo::Requirement> requirements = {db.alloc_requirement("a", 1, 10)};
        resolvo::Vector<resolvo::SolvableId> result;
        resolvo::Problem problem = {requirements, {}, {}};
        auto err = resolvo::solve(db, problem, result);
        std::cout << (db.lock ? "locked" : "favored") << ": err='" << err << "'";
        for (auto s : result) std::cout << " " << std::string_view(db.display_solvable(s));
        std::cout << "\n";  // expected: a=1 both times (and that is what is printed, by luck)
    }
    return 0;
}
