//! PRISTINE FINDING (C06, unpatched HEAD): solving the SAME problem a second time on the SAME
//! `Solver` gives a different solution than the first call (and than any fresh solver).
//!
//! `Solver::solve` resets `SolverState` but keeps the `SolverCache`. After the first call the
//! dependencies of every visited solvable are cached, so `are_dependencies_available_for`
//! returns true for them and `Encoder::on_requirement_candidates_available` encodes those
//! candidates eagerly (as if the provider had hinted them) during the second call. That changes
//! the insertion order of `requires_clauses` (discovery order instead of selection order), and
//! `decide()` breaks ties by first occurrence, so a different requirement is decided first.
//! Here `d=2` and `e=2` exclude each other: the first call picks d=2 (and e=1), the second call
//! on the same solver picks e=2 (and d=1). Hash seeds play no role; fresh solvers always agree
//! with the first call. Whether a repeated `solve` on one solver counts as a "repeated run" of
//! the property is a matter of interpretation - the provider is deterministic, non-yielding and
//! never hints anything, and the problem is identical.
//!
//! Run as tests/demo.rs: `cargo test --offline --features serde --test demo` (fails on HEAD).

use std::{any::Any, fmt::Display};

use resolvo::{
    Candidates, Dependencies, DependencyProvider, HintDependenciesAvailable, Interner,
    KnownDependencies, NameId, Problem, Requirement, SolvableId, Solver, SolverCache, StringId,
    VersionSetId, VersionSetUnionId,
};

/// A tiny, fully deterministic, non-yielding in-memory provider with fixed ids.
#[derive(Default, Clone)]
struct Uni {
    names: Vec<String>,
    /// (name, version)
    solvables: Vec<(u32, u32)>,
    /// (name, lo, hi): matches versions in lo..hi
    version_sets: Vec<(u32, u32, u32)>,
    unions: Vec<Vec<VersionSetId>>,
    requirements: Vec<Vec<Requirement>>,
    constrains: Vec<Vec<VersionSetId>>,
    locked: Vec<Option<SolvableId>>,
    excluded: Vec<Vec<(SolvableId, StringId)>>,
    strings: Vec<String>,
    hint_all: bool,
}

#[allow(dead_code)]
impl Uni {
    fn name(&mut self, name: &str) -> u32 {
        if let Some(idx) = self.names.iter().position(|n| n == name) {
            return idx as u32;
        }
        self.names.push(name.to_string());
        self.locked.push(None);
        self.excluded.push(Vec::new());
        (self.names.len() - 1) as u32
    }

    fn pkg(&mut self, name: &str, version: u32) -> SolvableId {
        let name = self.name(name);
        self.solvables.push((name, version));
        self.requirements.push(Vec::new());
        self.constrains.push(Vec::new());
        SolvableId((self.solvables.len() - 1) as u32)
    }

    fn vs(&mut self, name: &str, lo: u32, hi: u32) -> VersionSetId {
        let name = self.name(name);
        if let Some(idx) = self.version_sets.iter().position(|v| *v == (name, lo, hi)) {
            return VersionSetId(idx as u32);
        }
        self.version_sets.push((name, lo, hi));
        VersionSetId((self.version_sets.len() - 1) as u32)
    }

    fn union(&mut self, members: Vec<VersionSetId>) -> Requirement {
        self.unions.push(members);
        Requirement::Union(VersionSetUnionId((self.unions.len() - 1) as u32))
    }

    fn dep(&mut self, solvable: SolvableId, name: &str, lo: u32, hi: u32) {
        let vs = self.vs(name, lo, hi);
        self.requirements[solvable.0 as usize].push(vs.into());
    }

    fn constrain(&mut self, solvable: SolvableId, name: &str, lo: u32, hi: u32) {
        let vs = self.vs(name, lo, hi);
        self.constrains[solvable.0 as usize].push(vs);
    }

    fn lock(&mut self, solvable: SolvableId) {
        let name = self.solvables[solvable.0 as usize].0;
        self.locked[name as usize] = Some(solvable);
    }

    fn exclude(&mut self, solvable: SolvableId, reason: &str) {
        let name = self.solvables[solvable.0 as usize].0;
        self.strings.push(reason.to_string());
        let id = StringId((self.strings.len() - 1) as u32);
        self.excluded[name as usize].push((solvable, id));
    }
}

impl Interner for Uni {
    fn display_solvable(&self, solvable: SolvableId) -> impl Display + '_ {
        let (name, version) = self.solvables[solvable.0 as usize];
        format!("{}={}", self.names[name as usize], version)
    }

    fn display_name(&self, name: NameId) -> impl Display + '_ {
        self.names[name.0 as usize].clone()
    }

    fn display_version_set(&self, version_set: VersionSetId) -> impl Display + '_ {
        let (_, lo, hi) = self.version_sets[version_set.0 as usize];
        format!("{lo}..{hi}")
    }

    fn display_string(&self, string_id: StringId) -> impl Display + '_ {
        self.strings[string_id.0 as usize].clone()
    }

    fn version_set_name(&self, version_set: VersionSetId) -> NameId {
        NameId(self.version_sets[version_set.0 as usize].0)
    }

    fn solvable_name(&self, solvable: SolvableId) -> NameId {
        NameId(self.solvables[solvable.0 as usize].0)
    }

    fn version_sets_in_union(
        &self,
        version_set_union: VersionSetUnionId,
    ) -> impl Iterator<Item = VersionSetId> {
        self.unions[version_set_union.0 as usize].iter().copied()
    }
}

impl DependencyProvider for Uni {
    async fn filter_candidates(
        &self,
        candidates: &[SolvableId],
        version_set: VersionSetId,
        inverse: bool,
    ) -> Vec<SolvableId> {
        let (_, lo, hi) = self.version_sets[version_set.0 as usize];
        candidates
            .iter()
            .copied()
            .filter(|s| {
                let version = self.solvables[s.0 as usize].1;
                (lo <= version && version < hi) != inverse
            })
            .collect()
    }

    async fn get_candidates(&self, name: NameId) -> Option<Candidates> {
        let candidates: Vec<SolvableId> = (0..self.solvables.len())
            .filter(|&idx| self.solvables[idx].0 == name.0)
            .map(|idx| SolvableId(idx as u32))
            .collect();
        if candidates.is_empty() {
            return None;
        }
        Some(Candidates {
            candidates,
            favored: None,
            locked: self.locked[name.0 as usize],
            excluded: self.excluded[name.0 as usize].clone(),
            hint_dependencies_available: if self.hint_all {
                HintDependenciesAvailable::All
            } else {
                HintDependenciesAvailable::None
            },
        })
    }

    async fn sort_candidates(&self, _solver: &SolverCache<Self>, solvables: &mut [SolvableId]) {
        // Highest version first; versions are unique within a package.
        solvables.sort_by(|a, b| {
            self.solvables[b.0 as usize]
                .1
                .cmp(&self.solvables[a.0 as usize].1)
        });
    }

    async fn get_dependencies(&self, solvable: SolvableId) -> Dependencies {
        Dependencies::Known(KnownDependencies {
            requirements: self.requirements[solvable.0 as usize].clone(),
            constrains: self.constrains[solvable.0 as usize].clone(),
        })
    }

    fn should_cancel_with_value(&self) -> Option<Box<dyn Any>> {
        None
    }
}

fn render(solver: &Solver<Uni>, solution: &[SolvableId]) -> String {
    solution
        .iter()
        .map(|&s| solver.provider().display_solvable(s).to_string())
        .collect::<Vec<_>>()
        .join(" ")
}

#[test]
fn solving_twice_on_the_same_solver_gives_the_same_answer() {
    let mut u = Uni::default();
    let a1 = u.pkg("a", 1);
    let b2 = u.pkg("b", 2);
    let b1 = u.pkg("b", 1);
    let c1 = u.pkg("c", 1);
    let d2 = u.pkg("d", 2);
    u.pkg("d", 1);
    let e2 = u.pkg("e", 2);
    u.pkg("e", 1);

    // a=1 needs b and c. b=2 turns out to be uninstallable once its dependencies are known, so
    // b=1 is selected (and its dependencies fetched) only after c=1.
    u.dep(a1, "b", 0, 10);
    u.dep(a1, "c", 0, 10);
    u.dep(b2, "missing", 0, 10);
    // b=1 needs e, c=1 needs d; the highest versions of d and e exclude each other.
    u.dep(b1, "e", 0, 10);
    u.dep(c1, "d", 0, 10);
    u.constrain(d2, "e", 1, 2);
    u.constrain(e2, "d", 1, 2);

    let root: Vec<Requirement> = vec![u.vs("a", 0, 10).into()];

    let mut solver = Solver::new(u.clone());
    let first = solver
        .solve(Problem::new().requirements(root.clone()))
        .expect("solvable");
    let first = render(&solver, &first);
    let second = solver
        .solve(Problem::new().requirements(root.clone()))
        .expect("solvable");
    let second = render(&solver, &second);

    // A fresh solver agrees with the first call ...
    let mut fresh = Solver::new(u.clone());
    let fresh_solution = fresh
        .solve(Problem::new().requirements(root.clone()))
        .expect("solvable");
    assert_eq!(first, render(&fresh, &fresh_solution));

    // ... but the second call on the same solver does not.
    assert_eq!(
        first, second,
        "the same problem solved twice on the same solver gave two different solutions"
    );
}
