"""C06: cross-process reproducibility. The same seeded cases are solved in several separate
processes (different ahash seeds, heap addresses, ASLR); the per-case digests must be identical."""
import json
import os

import vlib


def run(prop, tier, seed, job, res):
    binary = vlib.build_rvmon("native")
    nproc = job.get("processes", 3)
    digests = []
    for i in range(nproc):
        part = vlib.part_path(prop, f"proc{i}")
        dig = os.path.join(vlib.PARTS, f"{prop}.digest.{i}.txt")
        for f in (part, dig):
            if os.path.exists(f):
                os.unlink(f)
        cmd = [binary, prop, "--tier", tier, "--seed", str(seed), "--scale", str(job["scale"]), "--part", part, "--label", f"proc{i}", "--replay-dir", vlib.REPLAY, "--x-digest", dig]
        env = vlib.base_env()
        # make the processes differ as much as the environment allows
        env["RVMON_PROCESS_SALT"] = "x" * (i * 977)
        code, logp, dt = vlib.run_logged(cmd, f"{prop}-proc{i}.log", env=env, timeout=3 * 3600)
        j = dict(label=f"proc{i}", code=code, log=logp, part=part, wall_s=dt, cmd=" ".join(cmd[1:]))
        # only the first process contributes case counts (the others re-run the same cases)
        if i == 0:
            vlib.absorb_job(prop, j, res)
        else:
            p = vlib.load_part(part)
            res["jobs"].append(dict(label=j["label"], code=code, wall_s=dt, cmd=j["cmd"], evaluations=(p or {}).get("evaluations", 0)))
            if p is None:
                res["inconclusive"].append(f"process {i} produced no result (exit {code}), see {logp}")
            else:
                for v in p.get("violations", []):
                    res["violations"].append(dict(kind=v["kind"], detail=v["detail"], replay=v["replay"]))
        digests.append(dig)
    tables = []
    for d in digests:
        t = {}
        try:
            for line in open(d):
                parts = line.rstrip("\n").split(" ", 2)
                if len(parts) >= 2:
                    t[parts[0]] = (parts[1], parts[2] if len(parts) > 2 else "")
        except OSError:
            res["inconclusive"].append(f"digest file {d} missing")
        tables.append(t)
    compared = 0
    mismatches = 0
    if tables and all(tables):
        base = tables[0]
        for k, (h, head) in base.items():
            compared += 1
            for i, t in enumerate(tables[1:], 1):
                if k not in t:
                    res["inconclusive"].append(f"case {k} missing from process {i}")
                    break
                if t[k][0] != h:
                    mismatches += 1
                    if mismatches <= 3:
                        os.makedirs(os.path.join(vlib.REPLAY, prop), exist_ok=True)
                        rp = os.path.join(vlib.REPLAY, prop, f"cross-process-{seed}-{k}.json")
                        json.dump(dict(property=prop, kind="separate processes give different output for the same problem", case_seed=int(k), tier=tier, case=None, detail=f"process 0: {h} {head!r}; process {i}: {t[k][0]} {t[k][1]!r}"), open(rp, "w"), indent=1)
                        res["violations"].append(dict(kind="separate processes give different output for the same problem", detail=f"case_seed {k}: process 0 digest {h} ({head}), process {i} digest {t[k][0]} ({t[k][1]})", replay=rp))
                    break
    res["extra"]["cross_process"] = dict(processes=nproc, cases_compared=compared, digest_lines=sum(len(t) for t in tables), mismatches=mismatches)
