"""C17: C++ binding == Rust API, memory-safely. Differential + container drivers under
clang ASan/UBSan/LSan and valgrind memcheck, Rust half under Miri (ffi_miri)."""
import json
import os
import re
import subprocess

import vlib


def build_all():
    vlib.build_cpp_driver("diff_driver", "asan")
    vlib.build_cpp_driver("container_driver", "asan")
    vlib.build_cpp_driver("diff_driver", "plain")
    vlib.build_cpp_driver("container_driver", "plain")


def split_segments(path):
    """Export file -> list of (seed, text) segments (one universe + problem each)."""
    segs, cur = [], []
    for line in open(path):
        cur.append(line)
        if line.startswith("# "):
            segs.append((line[2:].strip(), "".join(cur)))
            cur = []
    return segs


def san_env():
    env = vlib.base_env()
    env["ASAN_OPTIONS"] = "detect_leaks=1:halt_on_error=1:abort_on_error=0:strict_string_checks=1:detect_stack_use_after_return=1"
    env["UBSAN_OPTIONS"] = "halt_on_error=1:print_stacktrace=1"
    env["LSAN_OPTIONS"] = "exitcode=23"
    return env


def run_driver(binary, export, logname, valgrind=False, timeout=3600):
    """Runs the differential driver; returns (exit code, stdout lines, log path)."""
    os.makedirs(vlib.LOGS, exist_ok=True)
    logp = os.path.join(vlib.LOGS, logname)
    cmd = [binary, export]
    if valgrind:
        cmd = ["valgrind", "--error-exitcode=42", "--leak-check=full", "--errors-for-leak-kinds=definite,indirect", "--show-leak-kinds=definite,indirect", "-q"] + cmd
    with open(logp, "w") as err:
        err.write("$ " + " ".join(cmd) + "\n")
        err.flush()
        try:
            p = subprocess.run(cmd, stdout=subprocess.PIPE, stderr=err, env=san_env(), timeout=timeout, text=True, errors="replace")
            return p.returncode, p.stdout.splitlines(), logp
        except subprocess.TimeoutExpired:
            return -999, [], logp


def sanitizer_kinds(logp):
    kinds = []
    try:
        txt = open(logp, errors="replace").read()
    except OSError:
        return kinds
    for m in re.finditer(r"ERROR: AddressSanitizer: ([a-zA-Z-]+)", txt):
        kinds.append("asan: " + m.group(1))
    for m in re.finditer(r"ERROR: LeakSanitizer: (detected memory leaks)", txt):
        kinds.append("lsan: memory leak")
    for m in re.finditer(r"runtime error: ([^\n]{0,80})", txt):
        kinds.append("ubsan: " + m.group(1))
    for m in re.finditer(r"==\d+== (Invalid (?:read|write|free)[^\n]*|Mismatched free[^\n]*|[\d,]+ bytes in [\d,]+ blocks are definitely lost[^\n]*|Conditional jump or move depends on uninitialised[^\n]*|Use of uninitialised[^\n]*)", txt):
        k = re.sub(r"[\d,]+ bytes in [\d,]+ blocks", "N bytes", m.group(1))
        k = re.sub(r" in loss record [\d,]+ of [\d,]+", "", k)
        kinds.append("valgrind: " + k[:80])
    if re.search(r"panicked at|fatal runtime error|Aborted", txt):
        kinds.append("abort / panic crossed the FFI boundary")
    out = []
    for k in kinds:
        if k not in out:
            out.append(k)
    return out


def write_replay(prop, seed, kind, seg_text, expect, got, detail):
    d = os.path.join(vlib.REPLAY, prop)
    os.makedirs(d, exist_ok=True)
    slug = re.sub(r"[^A-Za-z0-9]+", "_", kind)[:50]
    base = os.path.join(d, f"{slug}-{seed}")
    with open(base + ".export", "w") as f:
        f.write(seg_text)
    rp = base + ".json"
    json.dump(dict(property=prop, kind=kind, detail=detail, export=base + ".export", expected=expect, got=got), open(rp, "w"), indent=1)
    return rp


def differential(prop, res, export, expect_path, binary, label, valgrind=False, limit=None):
    segs = split_segments(export)
    expect = {}
    for line in open(expect_path):
        k, _, v = line.rstrip("\n").partition(" ")
        expect[k] = v
    if limit is not None:
        segs = segs[:limit]
        sub = export + f".{label}.subset"
        with open(sub, "w") as f:
            f.write("".join(t for _, t in segs))
        export = sub
    code, lines, logp = run_driver(binary, export, f"{prop}-{label}.log", valgrind=valgrind)
    got = {}
    for line in lines:
        k, _, v = line.partition(" ")
        got[k] = v
    seg_by_seed = dict(segs)
    compared = 0
    disagreements = 0
    for seed, _ in segs:
        if seed not in got:
            continue
        compared += 1
        if got[seed] != expect.get(seed):
            disagreements += 1
            if disagreements <= 3:
                kind = "C++ binding result differs from the Rust API"
                if got[seed].startswith("CORRUPTED"):
                    kind = "inputs passed to resolvo::solve were modified"
                if got[seed].startswith("STALE"):
                    kind = "result vector not empty after a failed resolvo::solve (the header promises it is)"
                detail = f"case_seed {seed}: rust {expect.get(seed, '')[:200]!r} vs c++ {got[seed][:200]!r}"
                rp = write_replay(prop, seed, kind, seg_by_seed[seed], expect.get(seed), got[seed], detail)
                res["violations"].append(dict(kind=kind, detail=detail, replay=rp))
    reports = sanitizer_kinds(logp)
    crashed = code not in (0,) or len(got) < len(segs)
    if reports or crashed:
        # find the universe that triggers the report: the first one without output
        culprit = next((s for s, _ in segs if s not in got), None)
        if reports:
            for k in reports:
                detail = f"{label}: {k}; see {logp}" + (f"; first problem without output: case_seed {culprit}" if culprit else "")
                rp = logp
                if culprit:
                    rp = write_replay(prop, culprit, k, seg_by_seed[culprit], expect.get(culprit), None, detail)
                res["violations"].append(dict(kind=k, detail=detail, replay=rp))
        elif crashed:
            res["inconclusive"].append(f"{label}: driver exited with {code} after {len(got)} of {len(segs)} problems without a sanitizer report, see {logp}")
    res["jobs"].append(dict(label=label, code=code, cmd=os.path.basename(binary) + (" (valgrind)" if valgrind else ""), evaluations=compared, sanitizer_reports=len(reports)))
    # what the C++ provider did (its own counters, printed on stderr at exit)
    try:
        m = re.search(r"solved=(\d+) callbacks=(\d+) vectors_with_slack_returned=(\d+) favored_or_locked_pointing_into_returned_vector=(\d+)", open(logp, errors="replace").read())
    except OSError:
        m = None
    if m:
        res["extra"].update({f"{label}:provider_callbacks": int(m.group(2)), f"{label}:vectors_with_slack_returned": int(m.group(3)), f"{label}:favored_or_locked_pointing_into_returned_vector": int(m.group(4))})
    return compared, disagreements, len(reports)


def containers(prop, res, binary, label, seed, nseq, nops, valgrind=False):
    os.makedirs(vlib.LOGS, exist_ok=True)
    logp = os.path.join(vlib.LOGS, f"{prop}-{label}.log")
    cmd = [binary, str(seed), str(nseq), str(nops), "alias"]
    if valgrind:
        cmd = ["valgrind", "--error-exitcode=42", "--leak-check=full", "--errors-for-leak-kinds=definite,indirect", "-q"] + cmd
    with open(logp, "w") as f:
        f.write("$ " + " ".join(cmd) + "\n")
        f.flush()
        try:
            p = subprocess.run(cmd, stdout=f, stderr=subprocess.STDOUT, env=san_env(), timeout=3600)
            code = p.returncode
        except subprocess.TimeoutExpired:
            code = -999
    txt = open(logp, errors="replace").read()
    stats = {}
    m = re.search(r"OK sequences=(\d+) ops=(\d+) checks=(\d+) growths=(\d+) mutations_through_index=(\d+)(?: moved_from_own_element=(\d+))?(?: single_pass_ranges=(\d+))?(?: writes_through_slices=(\d+))?", txt)
    if m:
        stats = dict(sequences=int(m.group(1)), ops=int(m.group(2)), checks=int(m.group(3)), growths=int(m.group(4)), mutations=int(m.group(5)), moved_from_own_element=int(m.group(6) or 0), single_pass_ranges=int(m.group(7) or 0), writes_through_slices=int(m.group(8) or 0))
    reports = sanitizer_kinds(logp)
    mm = re.search(r"MISMATCH (.*)", txt)
    if mm:
        res["violations"].append(dict(kind="container contents differ from the std shadow: " + mm.group(1)[:60], detail=f"{label}: {' '.join(cmd[-4:])}: {mm.group(1)}", replay=logp))
    for k in reports:
        res["violations"].append(dict(kind=k, detail=f"{label}: {' '.join(cmd[-4:])}; see {logp}", replay=logp))
    if code != 0 and not reports and not mm:
        res["inconclusive"].append(f"{label}: container driver exited with {code}, see {logp}")
    res["jobs"].append(dict(label=label, code=code, cmd=" ".join(os.path.basename(c) for c in cmd[-5:]), evaluations=stats.get("sequences", 0), sanitizer_reports=len(reports)))
    return stats, len(reports)


def container_fuzz(prop, res, seed, seconds):
    """Coverage-guided container sequences: libFuzzer (clang -fsanitize=fuzzer,address,undefined)
    mutates the choice tape of the container driver; the std-container shadow and the sanitizers
    judge every execution. Coverage is that of the C++ header templates and the driver."""
    import glob
    import shutil
    binary = vlib.build_cpp_driver("container_driver", "fuzz")
    work = os.path.join(vlib.TARGET, "fuzz-work", "C17-containers")
    art = os.path.join(work, "artifacts")
    corpus = os.path.join(vlib.TARGET, "fuzz-corpus", "C17-containers")
    shutil.rmtree(art, ignore_errors=True)
    for d in (work, art, corpus):
        os.makedirs(d, exist_ok=True)
    cmd = [binary, corpus, f"-fork={vlib.JOBS}", f"-max_total_time={seconds}", "-timeout=60", "-rss_limit_mb=4096", "-len_control=0", "-max_len=2048",
           "-ignore_crashes=1", "-ignore_timeouts=1", "-ignore_ooms=1", f"-artifact_prefix={art}/", f"-seed={seed}"]
    env = san_env()
    env["ASAN_OPTIONS"] += ":abort_on_error=1"
    code, logp, dt = vlib.run_logged(cmd, f"{prop}-containers-fuzz.log", env=env, cwd=work, timeout=seconds + 1800)
    txt = open(logp, errors="replace").read()
    cov = ft = corp = execs = 0
    for m in re.finditer(r"#(\d+): cov: (\d+) ft: (\d+) corp: (\d+)", txt):
        execs, cov, ft, corp = max(execs, int(m.group(1))), max(cov, int(m.group(2))), max(ft, int(m.group(3))), max(corp, int(m.group(4)))
    reports = 0
    for f in sorted(glob.glob(os.path.join(art, "crash-*")) + glob.glob(os.path.join(art, "leak-*")))[:8]:
        # judged again alone: the binary run on exactly this input
        rp = os.path.join(vlib.REPLAY, prop)
        os.makedirs(rp, exist_ok=True)
        rp = os.path.join(rp, "containers-fuzz-" + os.path.basename(f))
        shutil.copy(f, rp)
        p = subprocess.run([binary, rp], stdout=subprocess.PIPE, stderr=subprocess.STDOUT, env=env, text=True, errors="replace", timeout=300)
        if p.returncode == 0:
            continue
        one = os.path.join(vlib.LOGS, f"{prop}-containers-fuzz-{os.path.basename(f)[:24]}.log")
        open(one, "w").write(p.stdout)
        kinds = sanitizer_kinds(one)
        mm = re.search(r"MISMATCH (.*)", p.stdout)
        if mm:
            kinds = ["container contents differ from the std shadow: " + mm.group(1)[:60]] + [k for k in kinds if not k.startswith("abort")]
        for k in kinds or [f"container driver dies on a fuzzer input (exit {p.returncode})"]:
            reports += 1
            res["violations"].append(dict(kind=k, detail=f"containers-fuzz: `{os.path.basename(binary)} {rp}`; see {one}", replay=rp))
    if execs == 0:
        res["inconclusive"].append(f"containers-fuzz: no execution, see {logp}")
    res["jobs"].append(dict(label="containers-fuzz", code=code, wall_s=dt, cmd=" ".join(os.path.basename(c) for c in cmd[:4]), evaluations=execs, sanitizer_reports=reports))
    return dict(executions=execs, coverage_edges=cov, coverage_features=ft, corpus_inputs=corp, seconds=seconds), reports


def ffi_miri(prop, res, tier, seed):
    n = 40 if tier == "quick" else 600
    # validity-of-reference and aliasing-model checks are off: C17 lists leaks, double frees,
    # out-of-bounds access and layout mismatch, which are all still checked (see DESIGN 5/C17)
    cmd, env, cwd = vlib.miri_command([str(seed), str(n)], crate="ffi_miri", bin_name="ffi_miri", extra_flags="-Zmiri-disable-validation -Zmiri-disable-stacked-borrows")
    code, logp, dt = vlib.run_logged(cmd, f"{prop}-ffi-miri.log", env=env, cwd=cwd, timeout=3 * 3600)
    reports = vlib.scan_sanitizer_log(logp)
    txt = open(logp, errors="replace").read()
    m = re.search(r"OK ffi_miri solves=(\d+) container_ops=(\d+) disagreements=(\d+)", txt)
    stats = dict(solves=int(m.group(1)), container_ops=int(m.group(2)), disagreements=int(m.group(3))) if m else {}
    for kind, line in reports:
        res["violations"].append(dict(kind=kind, detail=line, replay=logp))
    mm = re.search(r"MISMATCH (.*)", txt)
    if mm:
        res["violations"].append(dict(kind="ffi_miri: result through the C ABI differs from the Rust API", detail=mm.group(1)[:300], replay=logp))
    if not m and not reports and not mm:
        res["inconclusive"].append(f"ffi_miri did not complete (exit {code}), see {logp}")
    res["jobs"].append(dict(label="ffi-miri", code=code, wall_s=dt, cmd="cargo +nightly miri run (ffi_miri)", evaluations=stats.get("solves", 0), sanitizer_reports=len(reports)))
    return stats


def run(prop, tier, seed, job, res):
    binary = vlib.build_rvmon("native")
    os.makedirs(vlib.PARTS, exist_ok=True)
    export = os.path.join(vlib.PARTS, f"{prop}.export.txt")
    part = vlib.part_path(prop, "rust")
    for f in (export, export + ".expect", part):
        if os.path.exists(f):
            os.unlink(f)
    cmd = [binary, prop, "--tier", tier, "--seed", str(seed), "--scale", str(job["scale"]), "--part", part, "--label", "rust", "--replay-dir", vlib.REPLAY, "--x-export", export]
    code, logp, dt = vlib.run_logged(cmd, f"{prop}-rust.log", timeout=3 * 3600)
    vlib.absorb_job(prop, dict(label="rust-export", code=code, log=logp, part=part, wall_s=dt, cmd=" ".join(cmd[1:])), res)
    if not os.path.exists(export):
        raise vlib.Inconclusive(f"rust side did not write the export, see {logp}")
    diff_asan = vlib.build_cpp_driver("diff_driver", "asan")
    cont_asan = vlib.build_cpp_driver("container_driver", "asan")
    diff_plain = vlib.build_cpp_driver("diff_driver", "plain")
    cont_plain = vlib.build_cpp_driver("container_driver", "plain")
    quick = tier == "quick"
    programs, disagreements, reports = differential(prop, res, export, export + ".expect", diff_asan, "diff-asan")
    vg_programs, vg_dis, vg_reports = differential(prop, res, export, export + ".expect", diff_plain, "diff-valgrind", valgrind=True, limit=250 if quick else 5000)
    cstats, creports = containers(prop, res, cont_asan, "containers-asan", seed, 300 if quick else 6000, 300)
    vstats, vreports = containers(prop, res, cont_plain, "containers-valgrind", seed + 1, 6 if quick else 120, 200, valgrind=True)
    mstats = ffi_miri(prop, res, tier, seed)
    only = os.environ.get("VERIF_ONLY_JOBS", "")
    if not quick or "containers-fuzz" in only:
        fstats, freports = container_fuzz(prop, res, seed, int(os.environ.get("VERIF_FUZZ_SECONDS", "120")))
        res["extra"]["container_fuzz"] = fstats
        creports += freports
    res["extra"].update(
        programs=programs,
        disagreements_checked=programs,
        disagreements_found=disagreements + vg_dis,
        valgrind_programs=vg_programs,
        container_sequences_asan=cstats.get("sequences", 0),
        container_ops_asan=cstats.get("ops", 0),
        container_capacity_growths=cstats.get("growths", 0),
        container_push_back_of_own_element_moved=cstats.get("moved_from_own_element", 0),
        container_ranges_from_single_pass_iterators=cstats.get("single_pass_ranges", 0),
        container_writes_through_mutable_slices=cstats.get("writes_through_slices", 0),
        container_sequences_valgrind=vstats.get("sequences", 0),
        container_ops_valgrind=vstats.get("ops", 0),
        ffi_miri=mstats,
        sanitizer_reports_total=reports + vg_reports + creports + vreports,
    )
    if programs == 0:
        res["inconclusive"].append("no program was compared")


def replay(path):
    if not path.endswith(".json"):
        # an input kept by the coverage-guided container driver
        binary = vlib.build_cpp_driver("container_driver", "fuzz")
        return subprocess.call([binary, path], env=san_env())
    d = json.load(open(path))
    binary = vlib.build_cpp_driver("diff_driver", "asan")
    code, lines, logp = run_driver(binary, d["export"], "C17-replay.log")
    print("expected:", d.get("expected"))
    for l in lines:
        print("c++     :", l.partition(" ")[2])
    print(open(logp).read()[-3000:])
    ok = bool(lines) and lines[0].partition(" ")[2] == d.get("expected") and code == 0
    return 0 if ok else 1
