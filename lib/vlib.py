"""Orchestration of the runtime-monitoring checks: builds, job plans, evidence merging, verdicts."""
import glob
import hashlib
import json
import os
import re
import shutil
import subprocess
import sys
import time
from concurrent.futures import ThreadPoolExecutor

VERIF = os.path.dirname(os.path.dirname(os.path.abspath(__file__)))
REPO = os.path.abspath(os.environ.get("VERIF_REPO", "/repo"))
ALT = REPO != "/repo"
TAG = "main" if not ALT else "alt-" + hashlib.sha1(REPO.encode()).hexdigest()[:10]
TARGET = os.path.join(VERIF, "target", TAG)
PARTS = os.path.join(TARGET, "parts")
LOGS = os.path.join(TARGET, "logs")
EVIDENCE = os.path.join(VERIF, "evidence")
REPLAY = os.path.join(VERIF, "replay")
JOBS = int(os.environ.get("VERIF_JOBS", "16"))
NIGHTLY_FLAGS = "-Adangerous_implicit_autorefs"


class Inconclusive(Exception):
    pass


def log(msg):
    print(f"[check] {msg}", flush=True)


def base_env():
    env = dict(os.environ)
    env["CARGO_NET_OFFLINE"] = "true"
    env.pop("RUSTFLAGS", None)
    env.pop("MIRIFLAGS", None)
    return env


# --------------------------------------------------------------------------------------------
# crates: the harness depends on the repository by path; for VERIF_REPO a copy of the manifest
# with the path rewritten is generated next to a symlinked source tree.


def crate_dir(name):
    src = os.path.join(VERIF, name)
    if not ALT:
        return src
    dst = os.path.join(TARGET, "crates", name)
    os.makedirs(dst, exist_ok=True)
    for entry in os.listdir(src):
        if entry in ("target", "Cargo.toml"):
            continue
        link = os.path.join(dst, entry)
        if not os.path.lexists(link):
            os.symlink(os.path.join(src, entry), link)
    manifest = open(os.path.join(src, "Cargo.toml")).read().replace('"/repo', '"' + REPO)
    with open(os.path.join(dst, "Cargo.toml"), "w") as f:
        f.write(manifest)
    lock = os.path.join(dst, "Cargo.lock")
    if os.path.islink(lock):
        os.unlink(lock)
        shutil.copy(os.path.join(src, "Cargo.lock"), lock)
    return dst


def run_logged(cmd, logname, env=None, cwd=None, timeout=None):
    os.makedirs(LOGS, exist_ok=True)
    path = os.path.join(LOGS, logname)
    t0 = time.time()
    with open(path, "w") as f:
        f.write("$ " + " ".join(cmd) + "\n")
        f.flush()
        try:
            p = subprocess.run(cmd, stdout=f, stderr=subprocess.STDOUT, env=env or base_env(), cwd=cwd, timeout=timeout)
            code = p.returncode
        except subprocess.TimeoutExpired:
            code = -999
    return code, path, time.time() - t0


def build_rvmon(kind):
    """kind in native, relda, asan. Returns the path of the binary."""
    cdir = crate_dir("harness")
    env = base_env()
    tdir = os.path.join(TARGET, "asan" if kind == "asan" else "native")
    env["CARGO_TARGET_DIR"] = tdir
    if kind == "asan":
        env["RUSTFLAGS"] = f"-Zsanitizer=address -Cforce-frame-pointers=yes {NIGHTLY_FLAGS}"
        cmd = ["cargo", "+nightly", "build", "--offline", "--release", "--target", "x86_64-unknown-linux-gnu", "--bin", "rvmon"]
        out = os.path.join(tdir, "x86_64-unknown-linux-gnu", "release", "rvmon")
    else:
        profile = "release" if kind == "native" else "relda"
        cmd = ["cargo", "build", "--offline", "--profile", profile, "--bin", "rvmon"]
        out = os.path.join(tdir, profile, "rvmon")
    code, path, dt = run_logged(cmd, f"build-{kind}.log", env=env, cwd=cdir)
    if code != 0:
        raise Inconclusive(f"build of rvmon ({kind}) failed, see {path}")
    return out


def miri_command(args, tree_borrows=False, release=False, crate="harness", bin_name="rvmon", extra_flags=""):
    cdir = crate_dir(crate)
    env = base_env()
    env["CARGO_TARGET_DIR"] = os.path.join(TARGET, "miri")
    env["RUSTFLAGS"] = NIGHTLY_FLAGS
    flags = "-Zmiri-disable-isolation"
    if tree_borrows:
        flags += " -Zmiri-tree-borrows"
    if extra_flags:
        flags += " " + extra_flags
    env["MIRIFLAGS"] = flags
    cmd = ["cargo", "+nightly", "miri", "run", "--offline", "--bin", bin_name]
    if release:
        cmd += ["--release"]
    cmd += ["--"] + args
    return cmd, env, cdir


# --------------------------------------------------------------------------------------------
# C++ side


def cpp_paths():
    return {
        "tdir": os.path.join(TARGET, "cpp"),
        "inc": os.path.join(TARGET, "cpp", "include"),
        "lib": os.path.join(TARGET, "cpp", "release", "libresolvo_cpp.a"),
    }


def build_cpp_lib():
    p = cpp_paths()
    env = base_env()
    env["CARGO_TARGET_DIR"] = p["tdir"]
    env["RESOLVO_GENERATED_INCLUDE_DIR"] = p["inc"]
    cmd = ["cargo", "build", "--offline", "-p", "resolvo_cpp", "--release"]
    code, path, _ = run_logged(cmd, "build-cpp-lib.log", env=env, cwd=REPO)
    if code != 0 or not os.path.exists(p["lib"]):
        raise Inconclusive(f"build of resolvo_cpp failed, see {path}")
    return p


def build_cpp_driver(name, sanitize):
    """Compile /verif/cpp/<name>.cpp against the generated headers. sanitize: 'asan' or 'plain'."""
    p = build_cpp_lib()
    src = os.path.join(VERIF, "cpp", name + ".cpp")
    out = os.path.join(p["tdir"], f"{name}-{sanitize}")
    cmd = ["clang++", "-std=c++17", "-g", "-gdwarf-4", "-O1", "-fno-omit-frame-pointer"]
    if sanitize == "asan":
        cmd += ["-fsanitize=address,undefined", "-fno-sanitize-recover=all"]
    if sanitize == "fuzz":
        cmd += ["-fsanitize=fuzzer,address,undefined", "-fno-sanitize-recover=all", "-DCONTAINER_FUZZ"]
    cmd += ["-I", os.path.join(REPO, "cpp", "include"), "-I", p["inc"], src, p["lib"], "-lpthread", "-ldl", "-lm", "-o", out]
    code, path, _ = run_logged(cmd, f"build-{name}-{sanitize}.log")
    if code != 0:
        raise Inconclusive(f"compiling {name}.cpp ({sanitize}) failed, see {path}")
    return out


# --------------------------------------------------------------------------------------------
# job plans. Each job: dict(label, kind, scale, extra args); kinds:
#   native / relda / asan : rvmon campaign in that build
#   miri / miri-tb / miri-release : rvmon campaign under Miri (sharded over processes)
#   digest : C06 cross-process comparison
#   cpp : C17 pipeline


def tier_cases():
    """Number of cases per tier as declared by the monitors (parsed from the harness source)."""
    out = {}
    for f in glob.glob(os.path.join(VERIF, "harness", "src", "monitors", "c[0-9][0-9].rs")):
        m = re.search(r"fn cases\(&self, tier: Tier\) -> u64 \{\s*tier\.pick\(([\d_]+), ([\d_]+)\)", open(f).read())
        if m:
            out[os.path.basename(f)[:3].upper()] = dict(quick=int(m.group(1).replace("_", "")), thorough=int(m.group(2).replace("_", "")))
    return out


TIER_CASES = tier_cases()


def J(label, kind, scale=1.0, **kw):
    d = dict(label=label, kind=kind, scale=scale)
    d.update(kw)
    return d


SOLVER_PROPS = ["C01", "C02", "C03", "C05", "C07", "C08", "C09", "C11", "C14", "C15", "C16"]
PLANS = {}
# `cases` for Miri jobs is an absolute number of cases over all shards (generators are in
# --small mode there); other jobs scale the tier's case count.
for _p in SOLVER_PROPS:
    PLANS[_p] = {
        "quick": [J("native", "native")],
        "thorough": [J("native", "native"), J("relda", "relda", 0.2)],
    }
PLANS["C01"]["thorough"] += [J("asan", "asan", 0.05), J("miri", "miri", cases=640, shards=16)]
PLANS["C04"] = {
    "quick": [J("native", "native"), J("relda", "relda")],
    "thorough": [J("native", "native"), J("relda", "relda"), J("asan", "asan", 0.05), J("miri", "miri", cases=480, shards=16)],
}
PLANS["C06"] = {
    "quick": [J("digest", "digest", 1.0, processes=3)],
    "thorough": [J("digest", "digest", 1.0, processes=5)],
}
PLANS["C10"] = {
    "quick": [J("native", "native")],
    "thorough": [J("native", "native"), J("relda", "relda", 0.2), J("miri", "miri", cases=320, shards=16)],
}
PLANS["C12"] = {
    "quick": [J("native", "native")],
    "thorough": [J("native", "native"), J("relda", "relda", 0.2)],
}
PLANS["C13"] = {
    "quick": [J("native", "native")],
    "thorough": [J("native", "native"), J("relda", "relda", 0.2), J("asan", "asan", 0.05), J("miri", "miri", cases=480, shards=16)],
}
PLANS["C17"] = {
    "quick": [J("cpp", "cpp", 1.0)],
    "thorough": [J("cpp", "cpp", 1.0)],
}
PLANS["C18"] = {
    "quick": [J("native", "native"), J("miri", "miri", cases=16, shards=16)],
    "thorough": [J("native", "native"), J("relda", "relda", 0.3), J("asan", "asan", 0.3), J("miri", "miri", cases=320, shards=16), J("miri-tb", "miri-tb", cases=160, shards=16)],
}
PLANS["C19"] = {
    "quick": [J("native", "native"), J("miri", "miri", cases=320, shards=16)],
    "thorough": [J("native", "native"), J("relda", "relda", 0.3), J("asan", "asan", 0.2), J("miri", "miri", cases=3200, shards=16), J("miri-release", "miri-release", cases=1600, shards=16)],
}
PLANS["C20"] = {
    "quick": [J("native", "native")],
    "thorough": [J("native", "native"), J("relda", "relda", 0.2), J("miri", "miri", cases=320, shards=16)],
}

#   fuzz : coverage-guided campaign (libFuzzer) over the choice tape of the property's generator
for _p in PLANS:
    if _p not in ("C06", "C17"):
        PLANS[_p]["thorough"] = PLANS[_p]["thorough"] + [J("fuzz", "fuzz", seconds=120)]

#   miri-corpus : inputs kept by the fuzz job, re-executed under Miri
for _p in ("C01", "C13", "C18", "C19", "C20"):
    PLANS[_p]["thorough"] = PLANS[_p]["thorough"] + [J("miri-corpus", "miri-corpus", inputs=96, shards=16)]
#   fuzz-asan : the same under AddressSanitizer, for the properties about unsafe containers / frozen maps
for _p in ("C18", "C19", "C20", "C13"):
    PLANS[_p]["thorough"] = PLANS[_p]["thorough"] + [J("fuzz-asan", "fuzz-asan", seconds=90)]

LEVELS = {p: "exploration" for p in PLANS}
LEVELS["C12"] = "fault_enumeration"
LEVELS["C17"] = "translation_validation"


# --------------------------------------------------------------------------------------------


def part_path(prop, label, idx=None):
    os.makedirs(PARTS, exist_ok=True)
    suffix = f".{idx}" if idx is not None else ""
    return os.path.join(PARTS, f"{prop}.{label}{suffix}.part.json")


SAN_PATTERNS = [
    (re.compile(r"error: Undefined Behavior: (.*)"), "miri: undefined behaviour"),
    (re.compile(r"error: memory leaked: (.*)"), "miri: memory leaked"),
    (re.compile(r"error: (deadlock|abnormal termination|unsupported operation)(.*)"), "miri: error"),
    (re.compile(r"ERROR: AddressSanitizer: ([a-zA-Z-]+)"), "asan"),
    (re.compile(r"ERROR: LeakSanitizer: (.*)"), "lsan"),
    (re.compile(r"runtime error: (.*)"), "ubsan"),
]


def scan_sanitizer_log(path):
    """Returns list of (kind, first relevant line) found in a sanitizer / interpreter log."""
    out = []
    try:
        lines = open(path, errors="replace").read().splitlines()
    except OSError:
        return out
    for i, line in enumerate(lines):
        for rx, what in SAN_PATTERNS:
            m = rx.search(line)
            if m:
                # attribute to the first frame inside the repository
                frame = ""
                for l2 in lines[i : i + 60]:
                    m2 = re.search(r"((?:/repo|" + re.escape(REPO) + r")/[^\s:]+:\d+)", l2)
                    if m2:
                        frame = m2.group(1)
                        break
                out.append((f"{what}: {m.group(1).strip()[:80]} at {frame}", line.strip()))
    return out


def run_rvmon_job(prop, tier, seed, job, jidx):
    kind = job["kind"]
    label = job["label"]
    jseed = seed * 1009 + jidx
    results = []
    if kind in ("native", "relda", "asan"):
        binary = build_rvmon(kind)
        part = part_path(prop, label)
        if os.path.exists(part):
            os.unlink(part)
        cmd = [binary, prop, "--tier", tier, "--seed", str(jseed), "--scale", str(job["scale"]), "--part", part, "--label", label, "--replay-dir", REPLAY]
        if jidx > 0 and job["scale"] < 1.0:
            cmd += ["--floor-scale", "0"]
        env = base_env()
        if kind == "asan":
            env["ASAN_OPTIONS"] = "detect_leaks=1:halt_on_error=1:abort_on_error=0:detect_stack_use_after_return=0"
        inflight = part + ".inflight"
        shutil.rmtree(inflight, ignore_errors=True)
        code, logp, dt = run_logged(cmd, f"{prop}-{label}.log", env=env, timeout=3 * 3600)
        j = dict(label=label, code=code, log=logp, part=part, wall_s=dt, cmd=" ".join(cmd[1:]))
        if code not in (0, 1, 2, -999) and not os.path.exists(part):
            # the process died (abort after a non-unwinding panic, stack overflow, allocation failure,
            # signal): find the case that does it by re-running the cases that were in flight, each
            # alone in its own process
            j["aborts"] = classify_abort(prop, tier, binary, env, inflight, label, code)
        results.append(j)
    elif kind.startswith("miri"):
        shards = job.get("shards", 8)
        tb = kind == "miri-tb"
        rel = kind == "miri-release"
        # build once (first shard compiles), then the rest in parallel
        def one(i):
            part = part_path(prop, label, i)
            if os.path.exists(part):
                os.unlink(part)
            scale = job["cases"] / TIER_CASES[prop][tier]
            args = [prop, "--tier", tier, "--seed", str(jseed), "--scale", f"{scale:.9f}", "--shard", f"{i}/{shards}", "--threads", "1", "--watchdog", "0", "--floor-scale", "0", "--small", "--part", part, "--label", f"{label}-{i}", "--replay-dir", REPLAY]
            cmd, env, cwd = miri_command(args, tree_borrows=tb, release=rel)
            code, logp, dt = run_logged(cmd, f"{prop}-{label}-{i}.log", env=env, cwd=cwd, timeout=3 * 3600)
            return dict(label=f"{label}-{i}", code=code, log=logp, part=part, wall_s=dt, cmd="cargo miri run -- " + " ".join(args[:8]), sanitizer=True)
        # compile once (a run with an unknown property exits immediately), then all shards in parallel
        wcmd, wenv, wcwd = miri_command(["NOOP"], tree_borrows=tb, release=rel)
        wcode, wlog, _ = run_logged(wcmd, f"{prop}-{label}-build.log", env=wenv, cwd=wcwd, timeout=3600)
        if wcode != 3:
            raise Inconclusive(f"building rvmon for Miri failed (exit {wcode}), see {wlog}")
        with ThreadPoolExecutor(max_workers=min(JOBS, shards)) as ex:
            results.extend(ex.map(one, range(shards)))
    else:
        raise Inconclusive(f"unknown job kind {kind}")
    return results


FUZZ_FLAGS = ("-Cpasses=sancov-module -Cllvm-args=-sanitizer-coverage-level=4 -Cllvm-args=-sanitizer-coverage-inline-8bit-counters "
              "-Cllvm-args=-sanitizer-coverage-pc-table -Cllvm-args=-sanitizer-coverage-trace-compares --cfg fuzzing "
              "-Cllvm-args=-simplifycfg-branch-fold-threshold=0 -Cdebug-assertions -Ccodegen-units=1")


def build_fuzz(asan=False):
    """libFuzzer binary of harness/fuzz (coverage instrumentation, debug assertions on; with
    `asan` also AddressSanitizer). Returns the path of the binary."""
    hdir = crate_dir("harness")
    fdir = os.path.join(TARGET, "crates", "harness-fuzz")
    os.makedirs(fdir, exist_ok=True)
    src = os.path.join(VERIF, "harness", "fuzz")
    manifest = open(os.path.join(src, "Cargo.toml")).read().replace('path = ".."', f'path = "{hdir}"')
    with open(os.path.join(fdir, "Cargo.toml"), "w") as f:
        f.write(manifest)
    shutil.copy(os.path.join(src, "Cargo.lock"), os.path.join(fdir, "Cargo.lock"))
    link = os.path.join(fdir, "fuzz_targets")
    if not os.path.lexists(link):
        os.symlink(os.path.join(src, "fuzz_targets"), link)
    env = base_env()
    tdir = os.path.join(TARGET, "fuzz-asan" if asan else "fuzz")
    env["CARGO_TARGET_DIR"] = tdir
    env["RUSTFLAGS"] = f"{FUZZ_FLAGS} {NIGHTLY_FLAGS}" + (" -Zsanitizer=address -Cforce-frame-pointers=yes" if asan else "")
    cmd = ["cargo", "+nightly", "build", "--offline", "--release", "--target", "x86_64-unknown-linux-gnu", "--bin", "prop"]
    code, path, dt = run_logged(cmd, "build-fuzz-asan.log" if asan else "build-fuzz.log", env=env, cwd=fdir)
    if code != 0:
        raise Inconclusive(f"build of the fuzz target failed, see {path}")
    return os.path.join(tdir, "x86_64-unknown-linux-gnu", "release", "prop")


def run_fuzz_job(prop, tier, seed, job, jidx):
    """Coverage-guided campaign: libFuzzer mutates the choice tape of the property's own generator,
    the property's own monitor judges every execution (harness/src/fuzz.rs)."""
    asan = job["kind"] == "fuzz-asan"
    binary = build_fuzz(asan)
    native = build_rvmon("asan" if asan else "native")
    label = job["label"]
    seconds = int(os.environ.get("VERIF_FUZZ_SECONDS", job.get("seconds", 120)))
    work = os.path.join(TARGET, "fuzz-work", prop + ("-asan" if asan else ""))
    out = os.path.join(work, "out")
    art = os.path.join(work, "artifacts")
    corpus = os.path.join(TARGET, "fuzz-corpus", prop)
    shutil.rmtree(out, ignore_errors=True)
    shutil.rmtree(art, ignore_errors=True)
    for d in (out, art, corpus):
        os.makedirs(d, exist_ok=True)
    # committed starting corpus (inputs only; they are re-executed and re-judged like any other)
    seed_corpus = os.path.join(VERIF, "fuzz_corpus", prop + ".tar.gz")
    if os.path.exists(seed_corpus) and not os.path.exists(corpus + ".seeded"):
        subprocess.run(["tar", "-C", corpus, "-xzf", seed_corpus], check=False)
        open(corpus + ".seeded", "w").close()
    env = base_env()
    env["RVMON_FUZZ_PROP"] = prop
    env["RVMON_FUZZ_OUT"] = out
    if asan:
        env["ASAN_OPTIONS"] = "detect_leaks=1:halt_on_error=1:abort_on_error=1:detect_stack_use_after_return=0"
    cmd = [binary, corpus, f"-fork={JOBS}", f"-max_total_time={seconds}", "-timeout=120", "-rss_limit_mb=4096", "-len_control=0", "-max_len=4096",
           "-ignore_crashes=1", "-ignore_timeouts=1", "-ignore_ooms=1", f"-artifact_prefix={art}/", f"-seed={seed * 1009 + jidx}"]
    code, logp, dt = run_logged(cmd, f"{prop}-{label}.log", env=env, cwd=work, timeout=seconds + 1800)
    j = dict(label=label, code=0 if code == 0 else code, log=logp, wall_s=dt, cmd=" ".join(["prop"] + cmd[1:]), sanitizer=asan)
    # observations of the monitors, per fuzzing process
    merged = dict(evaluations=0, cases=0, distinct=0, distinct_nontrivial=0, counters={}, maxima={}, sets={}, samples=[], inconclusive={}, notes=[], violations=[], inconclusive_reasons=[])
    execs = 0
    for f in glob.glob(os.path.join(out, "part-*.json")):
        pj = load_part(f)
        if not pj:
            continue
        execs += pj.get("fuzz_execs", 0)
        for k in ("evaluations", "cases", "distinct", "distinct_nontrivial"):
            merged[k] += pj.get(k, 0)
        for k, v in pj.get("counters", {}).items():
            merged["counters"][k] = merged["counters"].get(k, 0) + v
        for k, v in pj.get("maxima", {}).items():
            merged["maxima"][k] = max(merged["maxima"].get(k, 0), v)
        for k, v in pj.get("inconclusive", {}).items():
            merged["inconclusive"][k] = merged["inconclusive"].get(k, 0) + v
        for smp in pj.get("samples", []):
            if len(merged["samples"]) < 2:
                merged["samples"].append(smp)
    merged["notes"].append("fuzz job: 'distinct' counts are summed over fuzzing processes (a case reached by two processes is counted twice)")
    # violations the monitors recorded (ordinary replay files)
    os.makedirs(os.path.join(REPLAY, prop), exist_ok=True)
    for f in sorted(glob.glob(os.path.join(out, "viol-*.json"))):
        v = load_part(f) or {}
        rp = os.path.join(REPLAY, prop, "fuzz-" + os.path.basename(f)[5:])
        shutil.copy(f, rp)
        merged["violations"].append(dict(kind=v.get("kind", "?"), detail=v.get("detail", ""), replay=rp))
    # inputs that killed or stalled a fuzzing process: judged again by the native binary, alone
    stats = dict(crash_artifacts=0, timeout_artifacts=0, oom_artifacts=0, artifacts_reproduced=0)
    for f in sorted(glob.glob(os.path.join(art, "*"))):
        base = os.path.basename(f)
        kindname = base.split("-")[0]
        if kindname + "_artifacts" in stats:
            stats[kindname + "_artifacts"] += 1
        if stats["artifacts_reproduced"] >= 12:
            continue
        rp = os.path.join(REPLAY, prop, f"fuzz-tape-{base}")
        shutil.copy(f, rp)
        try:
            renv = base_env()
            if asan:
                renv["ASAN_OPTIONS"] = "detect_leaks=1:halt_on_error=1:abort_on_error=0:detect_stack_use_after_return=0"
            p = subprocess.run([native, prop, "--tape", rp], stdout=subprocess.PIPE, stderr=subprocess.STDOUT, env=renv, timeout=600, text=True, errors="replace")
            c2, txt = p.returncode, p.stdout
        except subprocess.TimeoutExpired:
            c2, txt = -999, "native re-run exceeded 600 s"
        if c2 == 0:
            continue  # slow or out of memory only under instrumentation
        stats["artifacts_reproduced"] += 1
        if c2 == 1:
            kinds = re.findall(r"violated: ([^:]+):", txt)
            merged["violations"].append(dict(kind=(kinds[0] if kinds else "violation on a fuzzer artifact"), detail=f"`rvmon {prop} --tape {rp}`", replay=rp))
        elif c2 == 2:
            merged["inconclusive_reasons"].append(f"fuzzer artifact {base} is inconclusive when re-run natively")
        else:
            m = re.search(r"ERROR: (AddressSanitizer|LeakSanitizer): ([a-zA-Z-]+)", txt)
            kind = f"asan: {m.group(2)} (fuzzer artifact re-run alone)" if m else f"the process is killed by one case (exit {c2})"
            merged["violations"].append(dict(kind=kind, detail=f"`rvmon {prop} --tape {rp}`: {txt[-300:]}", replay=rp))
    # what libFuzzer reports about the exploration
    cov = ft = corp = 0
    try:
        for line in open(logp, errors="replace"):
            m = re.search(r"cov: (\d+) ft: (\d+) corp: (\d+)", line)
            if m:
                cov, ft, corp = max(cov, int(m.group(1))), max(ft, int(m.group(2))), max(corp, int(m.group(3)))
    except OSError:
        pass
    stats.update(executions=execs, seconds=seconds, processes=JOBS, coverage_edges=cov, coverage_features=ft, corpus_inputs=corp, corpus_files=len(os.listdir(corpus)))
    merged["counters"]["fuzz:executions"] = execs
    merged["maxima"]["fuzz:coverage-edges"] = cov
    merged["maxima"]["fuzz:coverage-features"] = ft
    merged["maxima"]["fuzz:corpus-inputs"] = corp
    part = part_path(prop, label)
    merged["fuzz"] = stats
    with open(part, "w") as f:
        json.dump(merged, f)
    j["part"] = part
    j["fuzz"] = stats
    if execs == 0:
        j["part"] = None
    return [j]


def run_miri_corpus_job(prop, tier, seed, job, jidx):
    """Inputs that coverage guidance kept (the corpus of the fuzz job that ran earlier in the plan,
    plus the committed starting corpus) are re-executed under Miri: the interesting executions,
    found at native speed, are judged by the interpreter for UB / aliasing / leaks."""
    label = job["label"]
    corpus = os.path.join(TARGET, "fuzz-corpus", prop)
    files = sorted(glob.glob(os.path.join(corpus, "*")), key=lambda f: (os.path.getsize(f), f))
    if not files:
        raise Inconclusive(f"no fuzz corpus for {prop} (the fuzz job has to run first)")
    # a deterministic spread over the corpus: smallest inputs first (cheap under the interpreter),
    # then every n-th of the rest
    n = job.get("inputs", 96)
    small = files[: n // 2]
    rest = files[n // 2 :]
    step = max(1, len(rest) // max(1, n - len(small)))
    chosen = small + rest[(seed + jidx) % step :: step][: n - len(small)]
    sel = os.path.join(TARGET, "fuzz-work", prop + "-miri-inputs")
    shutil.rmtree(sel, ignore_errors=True)
    os.makedirs(sel)
    for f in chosen:
        shutil.copy(f, os.path.join(sel, os.path.basename(f)))
    shards = job.get("shards", 16)

    def one(i):
        part = part_path(prop, label, i)
        if os.path.exists(part):
            os.unlink(part)
        args = [prop, "--tier", tier, "--tape-dir", sel, "--shard", f"{i}/{shards}", "--small", "--part", part, "--label", f"{label}-{i}", "--replay-dir", REPLAY]
        cmd, env, cwd = miri_command(args)
        code, logp, dt = run_logged(cmd, f"{prop}-{label}-{i}.log", env=env, cwd=cwd, timeout=3 * 3600)
        return dict(label=f"{label}-{i}", code=code, log=logp, part=part, wall_s=dt, cmd="cargo miri run -- " + " ".join(args[:6]), sanitizer=True)

    wcmd, wenv, wcwd = miri_command(["NOOP"])
    wcode, wlog, _ = run_logged(wcmd, f"{prop}-{label}-build.log", env=wenv, cwd=wcwd, timeout=3600)
    if wcode != 3:
        raise Inconclusive(f"building rvmon for Miri failed (exit {wcode}), see {wlog}")
    with ThreadPoolExecutor(max_workers=min(JOBS, shards)) as ex:
        return list(ex.map(one, range(shards)))


def classify_abort(prop, tier, binary, env, inflight, label, code):
    """Returns a list of violation dicts for in-flight cases that kill the process on their own."""
    out = []
    seen = set()
    for f in sorted(glob.glob(os.path.join(inflight, "w*"))):
        try:
            raw = open(f, errors="replace").read()
        except OSError:
            continue
        head, _, rest = raw.partition("\n")
        parts = head.split()
        if len(parts) != 2 or parts[0] == "0" or (parts[0], parts[1]) in seen:
            continue
        seen.add((parts[0], parts[1]))
        panic = " ... ".join(x.strip() for x in rest.splitlines() if x.strip())
        cmd = [binary, prop, "--tier", tier, "--case-seed", parts[0], "--index", parts[1]]
        try:
            p = subprocess.run(cmd, stdout=subprocess.DEVNULL, stderr=subprocess.PIPE, env=env, timeout=600, text=True, errors="replace")
            c2, err = p.returncode, p.stderr[-400:]
        except subprocess.TimeoutExpired:
            continue
        if c2 not in (0, 1, 2, 3):
            sig = re.sub(r"\d+", "N", panic)[:160] if panic else (err.strip().splitlines() or ["no message"])[-1][:160]
            os.makedirs(os.path.join(REPLAY, prop), exist_ok=True)
            rp = os.path.join(REPLAY, prop, f"{label}-process-abort-{parts[0]}.json")
            json.dump(dict(property=prop, kind="process abort", exit_code=c2, last_panic=panic, stderr_tail=err, command=" ".join(cmd)), open(rp, "w"), indent=1)
            out.append(dict(kind=f"the process is killed by one case (exit {c2}): {sig}", detail=f"campaign exit {code}; alone: `{' '.join(cmd[1:])}` exits {c2}; last panic seen: {panic[:200]}", replay=rp))
    return out


def load_part(path):
    try:
        return json.load(open(path))
    except (OSError, ValueError):
        return None


def run_property(prop, tier, seed):
    """Runs all jobs; returns dict(parts=[...], jobs=[...], violations=[...], inconclusive=[...])."""
    os.makedirs(REPLAY, exist_ok=True)
    res = dict(parts=[], jobs=[], violations=[], inconclusive=[], extra={})
    plan = PLANS[prop][tier]
    only = os.environ.get("VERIF_ONLY_JOBS")  # development aid: run a subset of the plan (by label)
    for jidx, job in enumerate(plan):
        if only and job["label"] not in only.split(","):
            continue
        try:
            if job["kind"] == "digest":
                import c06
                c06.run(prop, tier, seed, job, res)
                continue
            if job["kind"] == "cpp":
                import c17
                c17.run(prop, tier, seed, job, res)
                continue
            if job["kind"] in ("fuzz", "fuzz-asan"):
                jobs = run_fuzz_job(prop, tier, seed, job, jidx)
            elif job["kind"] == "miri-corpus":
                jobs = run_miri_corpus_job(prop, tier, seed, job, jidx)
            else:
                jobs = run_rvmon_job(prop, tier, seed, job, jidx)
        except Inconclusive as e:
            res["inconclusive"].append(str(e))
            continue
        for j in jobs:
            absorb_job(prop, j, res)
    return res


def absorb_job(prop, j, res):
    part = load_part(j["part"]) if j.get("part") else None
    reports = scan_sanitizer_log(j["log"]) if j.get("sanitizer") or "asan" in j["label"] else []
    aborts = j.get("aborts", [])
    for v in aborts:
        res["violations"].append(v)
    j["sanitizer_reports"] = len(reports)
    res["jobs"].append({k: j[k] for k in ("label", "code", "wall_s", "cmd", "sanitizer_reports", "fuzz") if k in j} | {"evaluations": (part or {}).get("evaluations", 0)})
    for kind, line in reports:
        res["violations"].append(dict(kind=kind, detail=line, replay=j["log"]))
    if part is None:
        if not reports and not aborts:
            res["inconclusive"].append(f"job {j['label']} produced no result (exit {j['code']}), see {j['log']}")
        return
    res["parts"].append(part)
    for v in part.get("violations", []):
        res["violations"].append(dict(kind=v["kind"], detail=v["detail"], replay=v["replay"]))
    if j["code"] not in (0, 1, 2):
        if not reports:
            res["inconclusive"].append(f"job {j['label']} exited with {j['code']}, see {j['log']}")
    for r in part.get("inconclusive_reasons", []):
        res["inconclusive"].append(f"job {j['label']}: {r}")


def merge_coverage(parts):
    cov = dict(evaluations=0, distinct_nontrivial=0, distinct=0, cases=0, counters={}, maxima={}, sets={}, samples=[], inconclusive_cases={}, notes=[])
    for p in parts:
        cov["evaluations"] += p.get("evaluations", 0)
        cov["distinct_nontrivial"] += p.get("distinct_nontrivial", 0)
        cov["distinct"] += p.get("distinct", 0)
        cov["cases"] += p.get("cases", 0)
        for k, v in p.get("counters", {}).items():
            cov["counters"][k] = cov["counters"].get(k, 0) + v
        for k, v in p.get("maxima", {}).items():
            cov["maxima"][k] = max(cov["maxima"].get(k, 0), v)
        for k, v in p.get("sets", {}).items():
            cov["sets"][k] = cov["sets"].get(k, 0) + v
        for k, v in p.get("inconclusive", {}).items():
            cov["inconclusive_cases"][k] = cov["inconclusive_cases"].get(k, 0) + v
        for s in p.get("samples", []):
            if len(cov["samples"]) < 4:
                cov["samples"].append(s)
        for n in p.get("notes", []):
            if n not in cov["notes"]:
                cov["notes"].append(n)
        if p.get("rule"):
            cov["rule"] = p["rule"]
    return cov


def known_findings():
    try:
        d = json.load(open(os.path.join(VERIF, "known_findings.json")))
    except (OSError, ValueError):
        return []
    return d.get("findings", [])


def conclude(prop, tier, seed, res, wall):
    cov = merge_coverage(res["parts"])
    cov.update(res.get("extra", {}))
    cov["jobs"] = res["jobs"]
    cov["sanitizer_reports"] = sum(j.get("sanitizer_reports", 0) for j in res["jobs"])
    # violations: dedupe by kind, split into known findings and new ones
    known = [k for k in known_findings() if k.get("property") == prop]
    by_kind = {}
    for v in res["violations"]:
        by_kind.setdefault(v["kind"], v)
    new, matched = [], []
    for kind, v in by_kind.items():
        k = next((k for k in known if k.get("kind") == kind), None)
        if k is not None:
            matched.append((k, v))
        else:
            new.append(v)
    cov["violation_kinds"] = {k: sum(1 for v in res["violations"] if v["kind"] == k) for k in by_kind}
    cov["known_findings_matched"] = [dict(kind=k.get("kind"), occurrences=cov["violation_kinds"].get(k.get("kind"), 0)) for k, _ in matched]
    cov["inconclusive_reasons"] = res["inconclusive"]
    if not cov.get("samples"):
        cov["samples"] = [{"note": "no case was completed"}]
    if "rule" not in cov:
        cov["rule"] = "see DESIGN.md section 5, " + prop
    evidence = dict(
        property_id=prop,
        tier=tier,
        seed=seed,
        level=LEVELS[prop],
        coverage=cov,
        assumptions=ASSUMPTIONS.get(prop, []) + COMMON_ASSUMPTIONS,
        wall_s=round(wall, 2),
        violations=len(new),
        verdict="violated" if new else ("inconclusive" if res["inconclusive"] else "held on what was observed"),
    )
    os.makedirs(EVIDENCE, exist_ok=True)
    if not ALT and not os.environ.get("VERIF_ONLY_JOBS"):
        with open(os.path.join(EVIDENCE, f"{prop}.json"), "w") as f:
            json.dump(evidence, f, indent=1, sort_keys=True)
    else:
        os.makedirs(os.path.join(TARGET, "evidence"), exist_ok=True)
        with open(os.path.join(TARGET, "evidence", f"{prop}.json"), "w") as f:
            json.dump(evidence, f, indent=1, sort_keys=True)
    for k, v in matched:
        print(f"KNOWN-FINDING: property={prop} {k.get('what', k.get('kind'))}")
    for v in new:
        print(f"VIOLATION property={prop} replay={v['replay']}")
        print(f"  kind: {v['kind']}")
        print(f"  detail: {str(v['detail'])[:400]}")
    print(f"[check] {prop} {tier} seed={seed}: evaluations={cov['evaluations']} distinct_nontrivial={cov['distinct_nontrivial']} jobs={len(res['jobs'])} wall={wall:.1f}s verdict={evidence['verdict']}")
    if new:
        return 1
    if res["inconclusive"]:
        for r in res["inconclusive"]:
            print(f"INCONCLUSIVE property={prop} {r}")
        return 2
    return 0


def replay(prop, path):
    if prop == "C17":
        import c17
        try:
            return c17.replay(path)
        except Inconclusive as e:
            print(f"INCONCLUSIVE {e}")
            return 2
    try:
        binary = build_rvmon("native")
    except Inconclusive as e:
        print(f"INCONCLUSIVE {e}")
        return 2
    if not path.endswith(".json"):
        # an input of the coverage-guided layer: the choice tape of the property's generator
        return subprocess.call([binary, prop, "--tape", path], env=base_env())
    tier = "quick"
    try:
        tier = json.load(open(path)).get("tier", "quick")
    except (OSError, ValueError):
        pass
    return subprocess.call([binary, prop, "--tier", tier, "--replay", path], env=base_env())


def setup():
    """Build everything once so that the checks only need incremental builds."""
    ok = True
    steps = [
        ("rvmon release", lambda: build_rvmon("native")),
        ("rvmon release+debug-assertions", lambda: build_rvmon("relda")),
        ("resolvo_cpp + C++ drivers", lambda: __import__("c17").build_all()),
        ("miri", lambda: miri_warmup()),
    ]
    for name, fn in steps:
        t0 = time.time()
        try:
            fn()
            log(f"setup: {name} ok ({time.time() - t0:.0f}s)")
        except Inconclusive as e:
            log(f"setup: {name} FAILED: {e}")
            ok = False
    return 0 if ok else 1


def miri_warmup():
    # builds the Miri sysroot and the harness under Miri; an unknown property name makes rvmon exit
    # with 3 right after start-up, so nothing but the build and one interpreter start is paid here
    cmd, env, cwd = miri_command(["NOOP"])
    code, logp, dt = run_logged(cmd, "setup-miri.log", env=env, cwd=cwd, timeout=3600)
    if code != 3:
        raise Inconclusive(f"miri warm-up failed (exit {code}), see {logp}")


COMMON_ASSUMPTIONS = [
    "the generated providers are well-formed: deterministic callbacks, filter(inverse) is the complement of filter, sort is a stable rank order, a candidate belongs to the package that lists it",
    "only the executions that were produced are judged; paths the workloads never drive are not covered",
    "the independent reference semantics in harness/src/reference.rs states the documented rules correctly",
]
ASSUMPTIONS = {
    "C02": ["brute-force existence search is complete for the generated sizes (cases over the step budget are dropped and counted)", "hook dump (verif-hooks) reflects the clause database faithfully"],
    "C04": ["termination is decided by logical budgets (provider steps, output bytes derived from the conflict graph); a hang that needs larger universes than generated is out of reach"],
    "C06": ["processes differ in ahash seeds, heap addresses and ASLR layout; other sources of nondeterminism (threads, time) are absent by construction"],
    "C10": ["'any completion order' = any order in which one provider future at a time completes on the solver's thread"],
    "C17": ["clang ASan/UBSan/LSan instrument the C++ half and intercept the allocator for both halves; valgrind memcheck covers the uninstrumented Rust half; Miri covers the Rust half against a Rust re-implementation of the C++ side"],
    "C18": ["Miri (Stacked Borrows, Tree Borrows in thorough) and ASan decide reference validity only on the histories run"],
}
