//! The Rust half of the C++ binding, driven through its C ABI by a Rust re-implementation of what
//! the C++ headers do (own #[repr(C)] mirrors, extern "C" callbacks, allocation through
//! resolvo_vector_allocate / free / empty, strings through resolvo_string_*). Meant to run under
//! Miri, which checks every call for ABI / layout agreement, bounds, lifetime and leaks.
//!
//!   ffi_miri <seed> <number of universes>
#![allow(clippy::all)]
extern crate resolvo_cpp;

use std::{ffi::c_void, rc::Rc};

use rvmon::{
    gener::{self, Rng},
    monitors::{self, c17},
    run::{Caught, Outcome, SolveOpts, solve_once},
    universe::*,
};

// ---------------------------------------------------------------------------------------------
// mirrors of the shared types (what resolvo_vector.h / resolvo_string.h / resolvo_slice.h declare)

#[repr(C)]
struct Header {
    refcount: isize,
    size: usize,
    capacity: usize,
}

#[repr(C)]
struct CString {
    inner: *mut c_void,
}

#[repr(C)]
struct CVector {
    inner: *mut Header,
}

#[repr(C)]
#[derive(Clone, Copy)]
struct CSlice {
    ptr: *mut u32,
    len: usize,
}

use resolvo_cpp::{
    Candidates as RCandidates, Dependencies as RDependencies, DependencyProvider as RProvider, NameId as RNameId,
    Problem as RProblem, Requirement as RRequirement, SolvableId as RSolvableId, StringId as RStringId,
    VersionSetId as RVersionSetId, VersionSetUnionId as RVersionSetUnionId, resolvo_requirement_single,
    resolvo_requirement_union, resolvo_solve,
};

fn sid(x: RSolvableId) -> u32 {
    resolvo::SolvableId::from(x).0
}
fn nid(x: RNameId) -> u32 {
    resolvo::NameId::from(x).0
}
fn vid(x: RVersionSetId) -> u32 {
    resolvo::VersionSetId::from(x).0
}
fn uid(x: RVersionSetUnionId) -> u32 {
    resolvo::VersionSetUnionId::from(x).0
}
fn strid(x: RStringId) -> u32 {
    resolvo::StringId::from(x).0
}
fn mk_nid(n: u32) -> RNameId {
    resolvo::NameId(n).into()
}

/// By-value `Slice<T>` arguments: the type lives in a private module of resolvo_cpp, so the
/// callbacks are generic and instantiated by inference from the callback table; inside, the value
/// is reinterpreted as the mirror (same layout, checked by size).
unsafe fn as_cslice<S>(s: &S) -> CSlice {
    assert_eq!(std::mem::size_of::<S>(), std::mem::size_of::<CSlice>());
    unsafe { std::mem::transmute_copy::<S, CSlice>(s) }
}

// the functions of the private `string` / `vector` modules are reached through their C symbols
unsafe extern "C" {
    fn resolvo_string_from_bytes(out: *mut CString, bytes: *const u8, len: usize);
    fn resolvo_string_drop(ss: *const CString);
    fn resolvo_string_clone(out: *mut CString, ss: *const CString);
    fn resolvo_string_bytes(ss: *const CString) -> *const u8;
    fn resolvo_vector_allocate(size: usize, align: usize) -> *mut u8;
    fn resolvo_vector_free(ptr: *mut u8, size: usize, align: usize);
    fn resolvo_vector_empty() -> *const u8;
}

static mut CONTAINER_OPS: u64 = 0;
fn op() {
    unsafe { CONTAINER_OPS += 1 }
}

// what resolvo_string.h does
impl CString {
    fn new(s: &str) -> CString {
        op();
        let mut out = CString { inner: std::ptr::null_mut() };
        unsafe { resolvo_string_from_bytes(&mut out, s.as_ptr(), s.len()) };
        out
    }
    fn to_string(&self) -> String {
        op();
        unsafe {
            let p = resolvo_string_bytes(self);
            std::ffi::CStr::from_ptr(p as *const _).to_str().expect("utf8").to_string()
        }
    }
    /// `*dst = value` as the C++ move assignment does: swap, then the temporary is destroyed
    unsafe fn assign_into(self, dst: *mut CString) {
        op();
        unsafe {
            let old = std::ptr::read(dst);
            std::ptr::write(dst, self);
            drop(old);
        }
    }
}
impl Clone for CString {
    fn clone(&self) -> CString {
        op();
        let mut out = CString { inner: std::ptr::null_mut() };
        unsafe { resolvo_string_clone(&mut out, self) };
        out
    }
}
impl Drop for CString {
    fn drop(&mut self) {
        op();
        unsafe { resolvo_string_drop(self) }
    }
}

// what resolvo_vector.h does, for elements of `elem` bytes without destructors
const HDR: usize = std::mem::size_of::<Header>();
const ALIGN: usize = std::mem::align_of::<Header>();

impl CVector {
    fn empty() -> CVector {
        op();
        CVector { inner: unsafe { resolvo_vector_empty() } as *mut Header }
    }
    fn with_capacity(cap: usize, elem: usize) -> CVector {
        op();
        unsafe {
            let mem = resolvo_vector_allocate(HDR + cap * elem, ALIGN) as *mut Header;
            std::ptr::write(mem, Header { refcount: 1, size: 0, capacity: cap });
            CVector { inner: mem }
        }
    }
    fn from_words(words: &[u32]) -> CVector {
        let mut v = CVector::empty();
        for &w in words {
            v.push(&w.to_ne_bytes(), 4);
        }
        v
    }
    fn len(&self) -> usize {
        unsafe { (*self.inner).size }
    }
    fn data(&self) -> *mut u8 {
        unsafe { (self.inner as *mut u8).add(HDR) }
    }
    fn detach(&mut self, expected: usize, elem: usize) {
        unsafe {
            if (*self.inner).refcount == 1 && expected <= (*self.inner).capacity {
                return;
            }
            let mut n = CVector::with_capacity(expected, elem);
            let len = self.len();
            if len > 0 {
                std::ptr::copy_nonoverlapping(self.data(), n.data(), len * elem);
            }
            (*n.inner).size = len;
            std::mem::swap(&mut self.inner, &mut n.inner);
            // n (holding the old storage) is dropped here
            n.release(elem);
            std::mem::forget(n);
        }
    }
    fn push(&mut self, bytes: &[u8], elem: usize) {
        op();
        assert_eq!(bytes.len(), elem);
        let len = self.len();
        self.detach(len + 1, elem);
        unsafe {
            std::ptr::copy_nonoverlapping(bytes.as_ptr(), self.data().add(len * elem), elem);
            (*self.inner).size += 1;
        }
    }
    fn words(&self) -> Vec<u32> {
        op();
        let mut out = vec![];
        unsafe {
            let p = self.data() as *const u32;
            for i in 0..self.len() {
                out.push(*p.add(i));
            }
        }
        out
    }
    fn share(&self) -> CVector {
        op();
        unsafe {
            if (*self.inner).refcount > 0 {
                (*self.inner).refcount += 1;
            }
        }
        CVector { inner: self.inner }
    }
    fn release(&mut self, elem: usize) {
        op();
        unsafe {
            if (*self.inner).refcount > 0 {
                (*self.inner).refcount -= 1;
                if (*self.inner).refcount == 0 {
                    let cap = (*self.inner).capacity;
                    resolvo_vector_free(self.inner as *mut u8, HDR + cap * elem, ALIGN);
                }
            }
        }
    }
    /// `*dst = value` (C++ move assignment: swap + destroy the temporary)
    unsafe fn assign_into(mut self, dst: *mut CVector, elem: usize) {
        unsafe {
            std::mem::swap(&mut (*dst).inner, &mut self.inner);
        }
        self.release(elem);
        std::mem::forget(self);
    }
}

// ---------------------------------------------------------------------------------------------
// the provider ("C++ side")

struct Db {
    u: Rc<Universe>,
    union_storage: Vec<Vec<u32>>,
    fav: Vec<u32>,
    lock: Vec<u32>,
    callbacks: u64,
}

unsafe fn db<'a>(data: *mut c_void) -> &'a mut Db {
    unsafe { &mut *(data as *mut Db) }
}

unsafe extern "C" fn cb_display_solvable<S>(data: *mut c_void, s: RSolvableId, out: std::ptr::NonNull<S>) {
    let d = unsafe { db(data) };
    d.callbacks += 1;
    unsafe { CString::new(&d.u.solv_label(sid(s))).assign_into(out.as_ptr() as *mut CString) }
}
unsafe extern "C" fn cb_display_solvable_name<S>(data: *mut c_void, s: RSolvableId, out: std::ptr::NonNull<S>) {
    let d = unsafe { db(data) };
    d.callbacks += 1;
    let n = d.u.solvs[sid(s) as usize].name;
    unsafe { CString::new(&d.u.pkgs[n as usize].name).assign_into(out.as_ptr() as *mut CString) }
}
unsafe extern "C" fn cb_display_merged<SL>(data: *mut c_void, sl: SL, out: *mut CString) {
    let d = unsafe { db(data) };
    d.callbacks += 1;
    let sl = unsafe { as_cslice(&sl) };
    let ids: Vec<u32> = (0..sl.len).map(|i| unsafe { *sl.ptr.add(i) }).collect();
    let text = if ids.is_empty() {
        String::new()
    } else {
        let mut v: Vec<String> = ids.iter().map(|&s| d.u.solv_label(s)).collect();
        v.sort();
        v.dedup();
        format!("{} {}", d.u.pkgs[d.u.solvs[ids[0] as usize].name as usize].name, v.join(" | "))
    };
    unsafe { CString::new(&text).assign_into(out) }
}
unsafe extern "C" fn cb_display_name<S>(data: *mut c_void, n: RNameId, out: std::ptr::NonNull<S>) {
    let d = unsafe { db(data) };
    d.callbacks += 1;
    unsafe { CString::new(&d.u.pkgs[nid(n) as usize].name).assign_into(out.as_ptr() as *mut CString) }
}
unsafe extern "C" fn cb_display_version_set<S>(data: *mut c_void, v: RVersionSetId, out: std::ptr::NonNull<S>) {
    let d = unsafe { db(data) };
    d.callbacks += 1;
    unsafe { CString::new(&d.u.vsets[vid(v) as usize].label).assign_into(out.as_ptr() as *mut CString) }
}
unsafe extern "C" fn cb_display_string<S>(data: *mut c_void, s: RStringId, out: std::ptr::NonNull<S>) {
    let d = unsafe { db(data) };
    d.callbacks += 1;
    // exercise clone + drop of a shared string on the way
    let a = CString::new(&d.u.strings[strid(s) as usize]);
    let b = a.clone();
    drop(a);
    unsafe { b.assign_into(out.as_ptr() as *mut CString) }
}
unsafe extern "C" fn cb_version_set_name(data: *mut c_void, v: RVersionSetId) -> RNameId {
    mk_nid(unsafe { db(data) }.u.vsets[vid(v) as usize].name)
}
unsafe extern "C" fn cb_solvable_name(data: *mut c_void, s: RSolvableId) -> RNameId {
    mk_nid(unsafe { db(data) }.u.solvs[sid(s) as usize].name)
}
unsafe extern "C" fn cb_version_sets_in_union<R>(data: *mut c_void, un: RVersionSetUnionId) -> R {
    let d = unsafe { db(data) };
    let v = &mut d.union_storage[uid(un) as usize];
    // Slice(ptr, len): empty slices use a dangling non-null pointer like the C++ constructor
    let sl = if v.is_empty() { CSlice { ptr: 4 as *mut u32, len: 0 } } else { CSlice { ptr: v.as_mut_ptr(), len: v.len() } };
    assert_eq!(std::mem::size_of::<R>(), std::mem::size_of::<CSlice>());
    unsafe { std::mem::transmute_copy::<CSlice, R>(&sl) }
}
unsafe extern "C" fn cb_get_candidates(data: *mut c_void, n: RNameId, out: std::ptr::NonNull<RCandidates>) {
    let d = unsafe { db(data) };
    d.callbacks += 1;
    let n = nid(n);
    let p = &d.u.pkgs[n as usize];
    let mut candidates = CVector::empty();
    let mut hints = CVector::empty();
    let mut excluded = CVector::empty();
    let mut favored: *const RSolvableId = std::ptr::null();
    let mut locked: *const RSolvableId = std::ptr::null();
    if let Some(c) = &p.candidates {
        candidates.release(4);
        std::mem::forget(std::mem::replace(&mut candidates, CVector::from_words(c)));
        let hint: Vec<u32> = match &p.hint {
            Hint::None => vec![],
            Hint::All => c.clone(),
            Hint::Some(v) => v.clone(),
        };
        hints.release(4);
        std::mem::forget(std::mem::replace(&mut hints, CVector::from_words(&hint)));
        for &(s, reason) in &p.excluded {
            let mut b = [0u8; 8];
            b[..4].copy_from_slice(&s.to_ne_bytes());
            b[4..].copy_from_slice(&reason.to_ne_bytes());
            excluded.push(&b, 8);
        }
        if let Some(f) = p.favored {
            d.fav[n as usize] = f;
            favored = &d.fav[n as usize] as *const u32 as *const RSolvableId;
        }
        if let Some(l) = p.locked {
            d.lock[n as usize] = l;
            locked = &d.lock[n as usize] as *const u32 as *const RSolvableId;
        }
    }
    // *out = r  (member-wise move assignment)
    unsafe {
        let o = out.as_ptr();
        candidates.assign_into(&raw mut (*o).candidates as *mut CVector, 4);
        (*o).favored = favored;
        (*o).locked = locked;
        hints.assign_into(&raw mut (*o).hint_dependencies_available as *mut CVector, 4);
        excluded.assign_into(&raw mut (*o).excluded as *mut CVector, 8);
    }
}
unsafe extern "C" fn cb_sort_candidates<SL>(data: *mut c_void, sl: SL) {
    let d = unsafe { db(data) };
    d.callbacks += 1;
    let sl = unsafe { as_cslice(&sl) };
    let mut ids: Vec<u32> = (0..sl.len).map(|i| unsafe { *sl.ptr.add(i) }).collect();
    ids.sort_by_key(|&s| d.u.solvs[s as usize].rank);
    for (i, s) in ids.into_iter().enumerate() {
        unsafe { *sl.ptr.add(i) = s };
    }
}
unsafe extern "C" fn cb_filter_candidates<SL>(data: *mut c_void, sl: SL, vs: RVersionSetId, inverse: bool, out: *mut CVector) {
    let d = unsafe { db(data) };
    d.callbacks += 1;
    let sl = unsafe { as_cslice(&sl) };
    let m = &d.u.vsets[vid(vs) as usize].matching;
    let mut r = CVector::empty();
    for i in 0..sl.len {
        let s = unsafe { *sl.ptr.add(i) };
        if m.contains(&s) != inverse {
            r.push(&s.to_ne_bytes(), 4);
        }
    }
    // copy construct + drop, then move assign
    let shared = r.share();
    r.release(4);
    std::mem::forget(r);
    unsafe { shared.assign_into(out, 4) };
}
unsafe extern "C" fn cb_get_dependencies(data: *mut c_void, s: RSolvableId, out: std::ptr::NonNull<RDependencies>) {
    let d = unsafe { db(data) };
    d.callbacks += 1;
    let mut reqs = CVector::empty();
    let mut cons = CVector::empty();
    if let Deps::Known { reqs: rr, cons: cc } = &d.u.solvs[sid(s) as usize].deps {
        for r in rr {
            let c: RRequirement = match r {
                Req::Single(v) => resolvo_requirement_single(resolvo::VersionSetId(*v).into()),
                Req::Union(u) => resolvo_requirement_union(resolvo::VersionSetUnionId(*u).into()),
            };
            assert_eq!(std::mem::size_of::<RRequirement>(), 8);
            let b: [u8; 8] = unsafe { std::mem::transmute_copy(&c) };
            reqs.push(&b, 8);
        }
        cons.release(4);
        std::mem::forget(std::mem::replace(&mut cons, CVector::from_words(cc)));
    }
    unsafe {
        let o = out.as_ptr();
        reqs.assign_into(&raw mut (*o).requirements as *mut CVector, 8);
        cons.assign_into(&raw mut (*o).constrains as *mut CVector, 4);
    }
}

fn solve_through_c_abi(u: &Rc<Universe>, p: &Prob) -> (String, u64) {
    let mut d = Db { u: u.clone(), union_storage: u.unions.clone(), fav: vec![0; u.pkgs.len()], lock: vec![0; u.pkgs.len()], callbacks: 0 };
    // The by-value slice type `Slice<'a, SolvableId>` lives in a private module: capture it by
    // inference from a field of `Problem`, instantiate the generic callbacks with it and
    // reinterpret the function pointers as the higher-ranked pointer types of the table (lifetimes
    // do not exist at run time, so caller and callee agree on the exact argument type).
    fn slice_callbacks<SL>(
        _witness: for<'x> fn(&'x RProblem<'static>) -> &'x SL,
    ) -> (
        unsafe extern "C" fn(*mut c_void, SL, *mut CString),
        unsafe extern "C" fn(*mut c_void, SL),
        unsafe extern "C" fn(*mut c_void, SL, RVersionSetId, bool, *mut CVector),
    ) {
        (cb_display_merged::<SL>, cb_sort_candidates::<SL>, cb_filter_candidates::<SL>)
    }
    let (merged_cb, sort_cb, filter_cb) = slice_callbacks(|p| &p.soft_requirements);
    let provider = unsafe {
        RProvider {
            data: &mut d as *mut Db as *mut c_void,
            display_solvable: cb_display_solvable,
            display_solvable_name: cb_display_solvable_name,
            display_merged_solvables: std::mem::transmute(merged_cb),
            display_name: cb_display_name,
            display_version_set: cb_display_version_set,
            display_string: cb_display_string,
            version_set_name: cb_version_set_name,
            solvable_name: cb_solvable_name,
            version_sets_in_union: cb_version_sets_in_union,
            get_candidates: cb_get_candidates,
            sort_candidates: std::mem::transmute(sort_cb),
            filter_candidates: std::mem::transmute(filter_cb),
            get_dependencies: cb_get_dependencies,
        }
    };
    let reqs: Vec<RRequirement> = p
        .reqs
        .iter()
        .map(|r| match r {
            Req::Single(v) => resolvo_requirement_single(resolvo::VersionSetId(*v).into()),
            Req::Union(x) => resolvo_requirement_union(resolvo::VersionSetUnionId(*x).into()),
        })
        .collect();
    let mut cons = p.cons.clone();
    let mut soft = p.soft.clone();
    let rs = CSlice { ptr: if reqs.is_empty() { 4 as *mut u32 } else { reqs.as_ptr() as *mut u32 }, len: reqs.len() };
    let cs = CSlice { ptr: if cons.is_empty() { 4 as *mut u32 } else { cons.as_mut_ptr() }, len: cons.len() };
    let ss = CSlice { ptr: if soft.is_empty() { 4 as *mut u32 } else { soft.as_mut_ptr() }, len: soft.len() };
    // the Slice type is not nameable: reinterpret the mirrors (same layout), types inferred
    let problem: RProblem = unsafe {
        RProblem { requirements: std::mem::transmute(rs), constraints: std::mem::transmute(cs), soft_requirements: std::mem::transmute(ss) }
    };
    let mut error = CString::new("");
    let mut result = CVector::empty();
    let ok = unsafe { resolvo_solve(&provider, &problem, &mut *(&raw mut error as *mut _), &mut *(&raw mut result as *mut _)) };
    let shared = result.share();
    let line = if ok {
        format!("OK{}", shared.words().iter().map(|s| format!(" {s}")).collect::<String>())
    } else {
        format!("ERR {}", error.to_string().replace('\n', "\\n"))
    };
    let mut shared = shared;
    shared.release(4);
    std::mem::forget(shared);
    result.release(4);
    std::mem::forget(result);
    drop(error);
    (line, d.callbacks)
}

fn main() {
    rvmon::run::install_panic_hook();
    let mut args = std::env::args().skip(1);
    let seed: u64 = args.next().and_then(|s| s.parse().ok()).unwrap_or(1);
    let n: u64 = args.next().and_then(|s| s.parse().ok()).unwrap_or(20);
    let mut solves = 0u64;
    let mut disagreements = 0u64;
    let mut callbacks = 0u64;
    for i in 0..n {
        let mut r = Rng::new(seed.wrapping_mul(7919).wrapping_add(i));
        let (name, cfg) = monitors::pick_family(&mut r, c17::FAMILIES);
        let (mut u, p) = gener::generate(&mut r, &cfg);
        c17::make_expressible(&mut u);
        let u = Rc::new(u);
        let (sess, out) = solve_once(&u, &p, &SolveOpts::default());
        let expect = match &out {
            Outcome::Ok(v) => format!("OK{}", v.iter().map(|s| format!(" {s}")).collect::<String>()),
            Outcome::Unsat(c) => match sess.render(c, 400_000, 400_000) {
                Caught::Ok((false, _, t)) => format!("ERR {}", t.replace('\n', "\\n")),
                _ => continue,
            },
            _ => continue,
        };
        drop(sess);
        let (got, cb) = solve_through_c_abi(&u, &p);
        solves += 1;
        callbacks += cb;
        if got != expect {
            disagreements += 1;
            println!("MISMATCH universe {i} (family {name}): rust api {:?} vs c abi {:?}", expect, got);
        }
    }
    println!("OK ffi_miri solves={solves} container_ops={} disagreements={disagreements} callbacks={callbacks}", unsafe { CONTAINER_OPS });
    if disagreements > 0 {
        std::process::exit(1);
    }
}
